#!/bin/bash
# Builds /verif/.venv offline: an overlay on /venv (the repository's environment)
# plus crosshair-tool, z3-solver and cvc5 from the local wheelhouse.  Idempotent.
set -e
cd "$(dirname "$0")"
exec 9>.setup.lock
flock 9
if [ -x .venv/bin/crosshair ] && .venv/bin/python -c "import crosshair, z3, numpy" 2>/dev/null; then
  exit 0
fi
rm -rf .venv
/venv/bin/python -m venv .venv
SP=$(.venv/bin/python -c "import sysconfig; print(sysconfig.get_paths()['purelib'])")
echo "import site; site.addsitedir('/venv/lib/python3.12/site-packages')" > "$SP/zz_overlay.pth"
PIP_NO_INDEX=1 .venv/bin/pip install -q --no-index --find-links /opt/veriftools/wheels crosshair-tool z3-solver cvc5 >/dev/null
.venv/bin/python -c "import crosshair, z3, numpy; print('verif venv ready')"
