"""Engine B: evaluate Python expression / statement ASTs taken from the repository's current
source over two numeric domains.

FPX  bit-exact IEEE-754 binary64 (z3 Float64, RNE); Python ints are 64-bit signed bit-vectors
     (callers assert ranges that exclude wrap-around).  Used to FIND counterexamples.
RLX  relative-error model over the reals: every float operation with exact result x yields a
     value r with |r - x| <= u*|x|, u = 2^-53 (sound for results in the normal range; callers
     assert ranges); Python ints are mathematical integers; int()/floor/ceil introduce an
     integer n with the defining inequalities.  Identical operations on identical operands
     return the identical result (floating point is deterministic).  Used to SHOW a kernel
     meets its specification for every input in a range (unsat => holds).
"""
import ast
import math
from fractions import Fraction

import z3

U = Fraction(1, 2 ** 53)


class Unsupported(Exception):
    pass


class V:
    """A typed value: kind in {'int','float','bool'}; t is a z3 term or a Python constant."""
    __slots__ = ("kind", "t")

    def __init__(self, kind, t):
        self.kind = kind
        self.t = t

    def __repr__(self):
        return f"V({self.kind},{self.t})"


def is_const(v):
    return not isinstance(v.t, z3.ExprRef)


def _const_fraction(t):
    """Fraction value of a z3 numeral (possibly ToReal of an int numeral), else None."""
    try:
        t = z3.simplify(t)
        if z3.is_int_value(t):
            return Fraction(t.as_long())
        if z3.is_rational_value(t):
            return Fraction(t.numerator_as_long(), t.denominator_as_long())
    except Exception:
        pass
    return None


class Domain:
    name = "?"

    def __init__(self):
        self.side = []      # side constraints (definitions of fresh variables)
        self.n = 0
        self.memo = {}

    def fresh(self, prefix, sort):
        self.n += 1
        return z3.Const(f"{prefix}!{self.n}", sort)

    # -- to be provided ---------------------------------------------------
    def const_int(self, c): raise NotImplementedError
    def const_float(self, c): raise NotImplementedError
    def int_var(self, name): raise NotImplementedError
    def float_var(self, name): raise NotImplementedError

    def const_bool(self, b):
        return V("bool", z3.BoolVal(bool(b)))

    def lift(self, x):
        if isinstance(x, V):
            return x
        if isinstance(x, bool):
            return self.const_bool(x)
        if isinstance(x, int):
            return self.const_int(x)
        if isinstance(x, float):
            return self.const_float(x)
        raise Unsupported(f"cannot lift {x!r}")

    def ite(self, c, a, b):
        a, b = self.lift(a), self.lift(b)
        if a.kind != b.kind:
            if {a.kind, b.kind} == {"int", "float"}:
                a, b = self.to_float(a), self.to_float(b)
            else:
                raise Unsupported("ite of different kinds")
        return V(a.kind, z3.If(c.t, a.t, b.t))

    def b_and(self, xs): return V("bool", z3.And(*[x.t for x in xs]))
    def b_or(self, xs): return V("bool", z3.Or(*[x.t for x in xs]))
    def b_not(self, x): return V("bool", z3.Not(x.t))


class RLX(Domain):
    name = "RLX"

    def __init__(self, axioms=False, exact=False):
        super().__init__()
        self.exact = exact        # no rounding at all (real arithmetic): used to search for gross errors only
        self.axioms = axioms      # add pairwise monotonicity of rounding (needed for exact-equality specs)
        self.rounded = []
        self.representable = []
        self.divs = []

    def const_int(self, c): return V("int", z3.IntVal(int(c)))

    def const_float(self, c):
        f = Fraction(float(c))
        return V("float", z3.RealVal(f"{f.numerator}/{f.denominator}"))

    def int_var(self, name): return V("int", z3.Int(name))

    def float_var(self, name):
        v = V("float", z3.Real(name))
        self.representable.append(v.t)
        return v

    def to_float(self, v):
        if v.kind == "float":
            return v
        if v.kind == "int":
            t = z3.ToReal(v.t)                     # exact for |i| < 2^53 (asserted by callers)
            if self.axioms and not any(t.eq(x) for x in self.representable):
                self.representable.append(t)
            return V("float", t)
        raise Unsupported("bool to float")

    def _round(self, key, exact, divinfo=None):
        """fresh r with |r - exact| <= u*|exact|; memoised on the operation key."""
        if key in self.memo:
            return self.memo[key]
        if self.exact:
            self.memo[key] = exact
            return exact
        r = self.fresh("fl", z3.RealSort())
        u = z3.RealVal(f"{U.numerator}/{U.denominator}")
        self.side.append(z3.If(exact >= 0,
                               z3.And(exact * (1 - u) <= r, r <= exact * (1 + u)),
                               z3.And(exact * (1 + u) <= r, r <= exact * (1 - u))))
        # rounding is a monotone function of the exact result (hence also deterministic):
        # x1 <= x2  =>  fl(x1) <= fl(x2).  Stated for pairs of divisions by the same positive
        # constant (comparing numerators keeps the constraints linear) and against representable
        # values (float inputs, converted ints), which are fixed points of rounding.
        if self.axioms:
            if divinfo is not None:
                num, den = divinfo
                for (n2, d2, r2) in self.divs:
                    if d2 == den:
                        self.side.append(z3.Implies(num <= n2, r <= r2))
                        self.side.append(z3.Implies(n2 <= num, r2 <= r))
                self.divs.append((num, den, r))
            for v in self.representable:
                self.side.append(z3.Implies(exact <= v, r <= v))
                self.side.append(z3.Implies(v <= exact, v <= r))
        self.rounded.append((exact, r))
        self.memo[key] = r
        return r

    def arith(self, op, a, b):
        a, b = self.lift(a), self.lift(b)
        if a.kind == "int" and b.kind == "int" and op in "+-*":
            t = {"+": a.t + b.t, "-": a.t - b.t, "*": a.t * b.t}[op]
            return V("int", t)
        if a.kind == "int" and b.kind == "int" and op == "//":
            return V("int", a.t / b.t)      # z3 Int division = floor for positive divisor (callers assert)
        if a.kind == "int" and b.kind == "int" and op == "%":
            return V("int", a.t % b.t)
        fa, fb = self.to_float(a), self.to_float(b)
        # both operands numerically known: the rounded result is known too (computed with real binary64)
        ca, cb = _const_fraction(fa.t), _const_fraction(fb.t)
        if ca is not None and cb is not None and op in "+-*/" and not (op == "/" and cb == 0):
            try:
                xa, xb = float(ca), float(cb)
                if Fraction(xa) == ca and Fraction(xb) == cb:
                    rv = {"+": xa + xb, "-": xa - xb, "*": xa * xb, "/": xa / xb if op == "/" else 0.0}[op]
                    fr = Fraction(rv)
                    return V("float", z3.RealVal(f"{fr.numerator}/{fr.denominator}"))
            except (OverflowError, ZeroDivisionError):
                pass
        if op == "+":
            exact = fa.t + fb.t
        elif op == "-":
            exact = fa.t - fb.t
        elif op == "*":
            exact = fa.t * fb.t
        elif op == "/":
            exact = fa.t / fb.t
        else:
            raise Unsupported(f"float op {op}")
        divinfo = None
        if op == "/":
            den = z3.simplify(fb.t)
            if z3.is_rational_value(den) and den.numerator_as_long() > 0:
                divinfo = (fa.t, den.sexpr())
        exact = z3.simplify(exact)
        key = (op, fa.t.sexpr(), fb.t.sexpr())
        return V("float", self._round(key, exact, divinfo))

    def neg(self, a):
        a = self.lift(a)
        return V(a.kind, -a.t)

    def cmp(self, op, a, b):
        a, b = self.lift(a), self.lift(b)
        if a.kind == "bool" or b.kind == "bool":
            raise Unsupported("bool comparison")
        if a.kind != b.kind:
            a, b = self.to_float(a), self.to_float(b)
        t = {"<": a.t < b.t, "<=": a.t <= b.t, ">": a.t > b.t, ">=": a.t >= b.t,
             "==": a.t == b.t, "!=": a.t != b.t}[op]
        return V("bool", t)

    def _toint(self, mode, x):
        x = self.lift(x)
        if x.kind == "int":
            return x
        key = (mode, x.t.sexpr())
        if key in self.memo:
            return V("int", self.memo[key])
        n = self.fresh("n", z3.IntSort())
        nr = z3.ToReal(n)
        if mode == "floor":
            self.side.append(z3.And(nr <= x.t, x.t < nr + 1))
        elif mode == "ceil":
            self.side.append(z3.And(nr - 1 < x.t, x.t <= nr))
        else:  # trunc
            self.side.append(z3.If(x.t >= 0, z3.And(nr <= x.t, x.t < nr + 1),
                                   z3.And(nr - 1 < x.t, x.t <= nr)))
        self.memo[key] = n
        return V("int", n)

    def trunc(self, x): return self._toint("trunc", x)
    def floor(self, x): return self._toint("floor", x)
    def ceil(self, x): return self._toint("ceil", x)

    def round_decimals(self, x, nd):
        """round(x, nd): the float nearest to k/10^nd where k is x*10^nd rounded half-even (Python rounds the exact value)."""
        x = self.to_float(self.lift(x))
        k = self.round_half_even(V("float", x.t * (10 ** nd)))
        exact = z3.ToReal(k.t) / (10 ** nd)
        return V("float", self._round(("round_decimals", x.t.get_id(), nd), exact))

    def round_half_even(self, x):
        x = self.lift(x)
        if x.kind == "int":
            return x
        n = self.fresh("n", z3.IntSort())
        nr = z3.ToReal(n)
        half = z3.RealVal("1/2")
        self.side.append(z3.And(nr - half <= x.t, x.t <= nr + half,
                                z3.Implies(x.t == nr + half, n % 2 == 0),
                                z3.Implies(x.t == nr - half, n % 2 == 0)))
        return V("int", n)

    def sqrt(self, x):
        x = self.to_float(self.lift(x))
        s = self.fresh("sq", z3.RealSort())
        self.side.append(z3.And(s >= 0, s * s == x.t))
        return V("float", self._round(("sqrt", x.t.sexpr()), s))

    def abs(self, x):
        x = self.lift(x)
        return V(x.kind, z3.If(x.t >= 0, x.t, -x.t))


class FPX(Domain):
    name = "FPX"
    BW = 64

    def __init__(self, bw=64):
        super().__init__()
        self.BW = bw            # width of Python ints (callers assert ranges that exclude wrap-around)
        self.rm = z3.RNE()
        self.F = z3.Float64()

    def const_int(self, c): return V("int", z3.BitVecVal(int(c), self.BW))
    def const_float(self, c): return V("float", z3.FPVal(float(c), self.F))
    def int_var(self, name): return V("int", z3.BitVec(name, self.BW))
    def float_var(self, name): return V("float", z3.FP(name, self.F))

    def to_float(self, v):
        if v.kind == "float":
            return v
        if v.kind == "int":
            return V("float", z3.fpSignedToFP(self.rm, v.t, self.F))
        raise Unsupported("bool to float")

    def arith(self, op, a, b):
        a, b = self.lift(a), self.lift(b)
        if a.kind == "int" and b.kind == "int" and op in "+-*":
            t = {"+": a.t + b.t, "-": a.t - b.t, "*": a.t * b.t}[op]
            return V("int", t)
        if a.kind == "int" and b.kind == "int" and op == "//":
            return V("int", z3.UDiv(a.t, b.t))     # callers assert non-negative operands
        if a.kind == "int" and b.kind == "int" and op == "%":
            return V("int", z3.URem(a.t, b.t))
        fa, fb = self.to_float(a), self.to_float(b)
        f = {"+": z3.fpAdd, "-": z3.fpSub, "*": z3.fpMul, "/": z3.fpDiv}.get(op)
        if f is None:
            raise Unsupported(f"float op {op}")
        return V("float", f(self.rm, fa.t, fb.t))

    def neg(self, a):
        a = self.lift(a)
        return V(a.kind, z3.fpNeg(a.t) if a.kind == "float" else -a.t)

    def cmp(self, op, a, b):
        a, b = self.lift(a), self.lift(b)
        if a.kind == "int" and b.kind == "int":
            t = {"<": a.t < b.t, "<=": a.t <= b.t, ">": a.t > b.t, ">=": a.t >= b.t,
                 "==": a.t == b.t, "!=": a.t != b.t}[op]
            return V("bool", t)
        a, b = self.to_float(a), self.to_float(b)    # exact for |int| < 2^53 (asserted by callers)
        t = {"<": z3.fpLT(a.t, b.t), "<=": z3.fpLEQ(a.t, b.t), ">": z3.fpGT(a.t, b.t),
             ">=": z3.fpGEQ(a.t, b.t), "==": z3.fpEQ(a.t, b.t), "!=": z3.Not(z3.fpEQ(a.t, b.t))}[op]
        return V("bool", t)

    def _toint(self, rm, x):
        x = self.lift(x)
        if x.kind == "int":
            return x
        return V("int", z3.fpToSBV(rm, x.t, z3.BitVecSort(self.BW)))

    def trunc(self, x): return self._toint(z3.RTZ(), x)
    def floor(self, x): return self._toint(z3.RTN(), x)
    def ceil(self, x): return self._toint(z3.RTP(), x)
    def round_half_even(self, x): return self._toint(z3.RNE(), x)

    def sqrt(self, x):
        x = self.to_float(self.lift(x))
        return V("float", z3.fpSqrt(self.rm, x.t))

    def abs(self, x):
        x = self.lift(x)
        if x.kind == "float":
            return V("float", z3.fpAbs(x.t))
        return V("int", z3.If(x.t >= 0, x.t, -x.t))


# ------------------------------------------------------------------------------------------
class Env:
    """Name resolution for the evaluator.  Keys are dotted names ('self.tick_length_secs',
    'ticks_per_second').  Values: V, Python numbers, or FuncDef (inlined on call)."""

    def __init__(self, dom, names=None, funcs=None, consts=None):
        self.dom = dom
        self.names = dict(names or {})
        self.funcs = dict(funcs or {})      # dotted call name -> ast.FunctionDef | python callable(dom, *args)
        self.consts = dict(consts or {})

    def child(self):
        e = Env(self.dom, self.names, self.funcs, self.consts)
        return e


def dotted(node):
    if isinstance(node, ast.Name):
        return node.id
    if isinstance(node, ast.Attribute):
        b = dotted(node.value)
        return None if b is None else f"{b}.{node.attr}"
    if isinstance(node, ast.Subscript):
        b = dotted(node.value)
        if b is None:
            return None
        s = node.slice
        if isinstance(s, ast.Constant):
            return f"{b}[{s.value!r}]"
    return None


_BINOP = {ast.Add: "+", ast.Sub: "-", ast.Mult: "*", ast.Div: "/", ast.FloorDiv: "//", ast.Mod: "%"}
_CMP = {ast.Lt: "<", ast.LtE: "<=", ast.Gt: ">", ast.GtE: ">=", ast.Eq: "==", ast.NotEq: "!="}


def ev(node, env):
    d = env.dom
    if isinstance(node, ast.Constant):
        if isinstance(node.value, (bool, int, float)):
            return d.lift(node.value)
        raise Unsupported(f"constant {node.value!r}")
    if isinstance(node, (ast.Name, ast.Attribute, ast.Subscript)):
        key = dotted(node)
        if key is not None and key in env.names:
            return d.lift(env.names[key])
        if key is not None and key in env.consts:
            return d.lift(env.consts[key])
        raise Unsupported(f"unbound name {key or ast.dump(node)}")
    if isinstance(node, ast.BinOp):
        if type(node.op) is ast.Pow:
            base, ex = ev(node.left, env), ev(node.right, env)
            raise Unsupported("pow")
        op = _BINOP.get(type(node.op))
        if op is None:
            raise Unsupported(f"binop {type(node.op).__name__}")
        return d.arith(op, ev(node.left, env), ev(node.right, env))
    if isinstance(node, ast.UnaryOp):
        if isinstance(node.op, ast.USub):
            return d.neg(ev(node.operand, env))
        if isinstance(node.op, ast.UAdd):
            return ev(node.operand, env)
        if isinstance(node.op, ast.Not):
            return d.b_not(ev(node.operand, env))
        raise Unsupported("unary op")
    if isinstance(node, ast.BoolOp):
        vals = [ev(v, env) for v in node.values]
        if all(v.kind == "bool" for v in vals):
            return d.b_and(vals) if isinstance(node.op, ast.And) else d.b_or(vals)
        # Python value semantics: `a or b` is a if a is truthy else b; `a and b` is b if a is truthy else a
        acc = vals[-1]
        for v in reversed(vals[:-1]):
            truthy = d.cmp("!=", v, 0) if v.kind != "bool" else v
            acc = d.ite(truthy, v, acc) if isinstance(node.op, ast.Or) else d.ite(truthy, acc, v)
        return acc
    if isinstance(node, ast.Compare):
        left = ev(node.left, env)
        parts = []
        for op, right in zip(node.ops, node.comparators):
            r = ev(right, env)
            o = _CMP.get(type(op))
            if o is None:
                raise Unsupported("comparison op")
            parts.append(d.cmp(o, left, r))
            left = r
        return parts[0] if len(parts) == 1 else d.b_and(parts)
    if isinstance(node, ast.IfExp):
        return d.ite(ev(node.test, env), ev(node.body, env), ev(node.orelse, env))
    if isinstance(node, ast.Call):
        return ev_call(node, env)
    raise Unsupported(f"expression {type(node).__name__}")


def ev_call(node, env):
    d = env.dom
    name = dotted(node.func)
    args = [ev(a, env) for a in node.args]
    kw = {k.arg: ev(k.value, env) for k in node.keywords}
    if name == "int":
        return d.trunc(args[0])
    if name == "float":
        return d.to_float(args[0])
    if name in ("math.floor", "floor", "np.floor"):
        return d.floor(args[0])
    if name in ("math.ceil", "ceil", "np.ceil"):
        return d.ceil(args[0])
    if name == "round" and len(args) == 1:
        return d.round_half_even(args[0])
    if name == "round" and len(args) == 2 and hasattr(d, "round_decimals"):
        nd = args[1].t
        nd = nd if isinstance(nd, int) else (nd.as_long() if z3.is_int_value(nd) else None)
        if nd is None or not (0 <= nd <= 15):
            raise Unsupported("round(x, n) with a non-constant n")
        return d.round_decimals(args[0], nd)
    if name == "abs":
        return d.abs(args[0])
    if name in ("max", "min"):
        acc = args[0]
        for a in args[1:]:
            c = d.cmp(">=" if name == "max" else "<=", acc, a)
            acc = d.ite(c, acc, a)
        return acc
    if name in ("np.sqrt", "math.sqrt"):
        return d.sqrt(args[0])
    if name == "math.isclose":
        a, b = args[0], args[1]
        rel = kw.get("rel_tol", d.lift(1e-09))
        ab = kw.get("abs_tol", d.lift(0.0))
        diff = d.abs(d.arith("-", a, b))
        m = d.ite(d.cmp(">=", d.abs(a), d.abs(b)), d.abs(a), d.abs(b))
        tol = d.arith("*", rel, m)
        tol = d.ite(d.cmp(">=", tol, ab), tol, ab)
        return d.cmp("<=", diff, tol)
    if name in env.funcs:
        f = env.funcs[name]
        if isinstance(f, ast.FunctionDef):
            return call_funcdef(f, args, env)
        return f(env, *args, **kw)
    raise Unsupported(f"call {name}")


class _Frame:
    def __init__(self, env):
        self.env = env
        self.returns = []      # (guard V bool, value V)


def call_funcdef(fdef, args, env, bind_self=None):
    """Inline a repository function: positional args bound to its parameters (a leading
    `self` is skipped when bind_self is given or when the arity says so)."""
    params = [a.arg for a in fdef.args.args]
    e = env.child()
    if params and params[0] == "self" and len(args) == len(params) - 1:
        params = params[1:]
    if len(params) != len(args):
        raise Unsupported(f"arity of {fdef.name}")
    for p, a in zip(params, args):
        e.names[p] = a
    fr = _Frame(e)
    exec_block(fdef.body, fr, env.dom.const_bool(True))
    if not fr.returns:
        raise Unsupported(f"{fdef.name} returns nothing")
    acc = fr.returns[-1][1]
    for g, v in reversed(fr.returns[:-1]):
        acc = env.dom.ite(g, v, acc)
    return acc


def exec_block(stmts, fr, guard):
    """Execute statements under `guard`; returns the guard under which control continues."""
    d = fr.env.dom
    for st in stmts:
        if isinstance(st, ast.Expr) and isinstance(st.value, ast.Constant):
            continue        # docstring
        if isinstance(st, ast.Assign):
            if len(st.targets) != 1:
                raise Unsupported("multi-target assign")
            key = dotted(st.targets[0])
            if key is None:
                raise Unsupported("assign target")
            val = ev(st.value, fr.env)
            old = fr.env.names.get(key)
            if old is not None and not (isinstance(guard.t, z3.BoolRef) and z3.is_true(guard.t)):
                val = d.ite(guard, val, d.lift(old))
            fr.env.names[key] = val
        elif isinstance(st, ast.AugAssign):
            key = dotted(st.target)
            op = _BINOP.get(type(st.op))
            if key is None or op is None or key not in fr.env.names:
                raise Unsupported("augassign")
            old = d.lift(fr.env.names[key])
            val = d.arith(op, old, ev(st.value, fr.env))
            if not z3.is_true(guard.t):
                val = d.ite(guard, val, old)
            fr.env.names[key] = val
        elif isinstance(st, ast.If):
            c = ev(st.test, fr.env)
            g_then = d.b_and([guard, c])
            g_else = d.b_and([guard, d.b_not(c)])
            cont_then = exec_block(st.body, fr, g_then)
            cont_else = exec_block(st.orelse, fr, g_else) if st.orelse else g_else
            guard = d.b_or([cont_then, cont_else])
        elif isinstance(st, ast.Return):
            if st.value is None:
                raise Unsupported("bare return")
            fr.returns.append((guard, ev(st.value, fr.env)))
            guard = d.const_bool(False)
        elif isinstance(st, ast.Pass):
            continue
        elif isinstance(st, ast.Assert):
            continue
        else:
            raise Unsupported(f"statement {type(st).__name__}")
    return guard


def exec_paths(stmts, env, guards=None):
    """Path-wise execution of Assign / AugAssign / If statements: returns [(guards, names)],
    one entry per control-flow path (no merging with ite, so identical float operations on a
    path are recognised as identical)."""
    d = env.dom
    guards = list(guards or [])
    names = dict(env.names)
    work = [(guards, names, 0)]
    done = []
    while work:
        g, nm, i = work.pop()
        e = Env(d, nm, env.funcs, env.consts)
        while i < len(stmts):
            st = stmts[i]
            if isinstance(st, ast.Assign):
                key = dotted(st.targets[0])
                if key is None or len(st.targets) != 1:
                    raise Unsupported("assign target")
                e.names[key] = ev(st.value, e)
            elif isinstance(st, ast.AugAssign):
                key = dotted(st.target)
                op = _BINOP.get(type(st.op))
                if key is None or op is None or key not in e.names:
                    raise Unsupported("augassign")
                e.names[key] = d.arith(op, d.lift(e.names[key]), ev(st.value, e))
            elif isinstance(st, ast.If):
                c = ev(st.test, e)
                rest = stmts[i + 1:]
                out = []
                for (cond, body) in ((c.t, st.body), (z3.Not(c.t), st.orelse)):
                    sub = exec_paths(list(body) + list(rest), Env(d, dict(e.names), env.funcs, env.consts), g + [cond])
                    out.extend(sub)
                done.extend(out)
                break
            elif isinstance(st, (ast.Pass, ast.Assert)) or (isinstance(st, ast.Expr) and isinstance(st.value, ast.Constant)):
                pass
            else:
                raise Unsupported(f"statement {type(st).__name__}")
            i += 1
        else:
            done.append((g, e.names))
    return done


def exec_stmts(stmts, env):
    """Run a statement list (Assign / AugAssign / If) in env; returns env.names."""
    fr = _Frame(env)
    exec_block(stmts, fr, env.dom.const_bool(True))
    return fr.env.names


# ------------------------------------------------------------------------------------------
def fp_to_py(model, term):
    """Concrete Python float of an FP term under a model."""
    v = model.eval(term, model_completion=True)
    if z3.is_fp(v):
        if z3.is_fprm_value(v):
            raise Unsupported("rm")
        s = str(v)
        if v.isNaN():
            return float("nan")
        if v.isInf():
            return float("-inf") if v.isNegative() else float("inf")
        bv = model.eval(z3.fpToIEEEBV(v), model_completion=True).as_long()
        import struct
        return struct.unpack(">d", bv.to_bytes(8, "big"))[0]
    raise Unsupported("not fp")


def bv_to_py(model, term):
    return model.eval(term, model_completion=True).as_signed_long()


def real_to_fraction(model, term):
    v = model.eval(term, model_completion=True)
    if z3.is_int_value(v):
        return Fraction(v.as_long())
    if z3.is_rational_value(v):
        return Fraction(v.numerator_as_long(), v.denominator_as_long())
    if z3.is_algebraic_value(v):
        a = v.approx(30)
        return Fraction(a.numerator_as_long(), a.denominator_as_long())
    raise Unsupported(f"model value {v}")


def check(solver, timeout_ms):
    solver.set("timeout", int(timeout_ms))
    import time
    t0 = time.time()
    r = solver.check()
    return str(r), time.time() - t0
