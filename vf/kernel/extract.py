"""Locate kernel expressions in the repository's CURRENT source (by role, not by line)."""
import ast
import copy
import os

REPO = os.environ.get("EUDOXIA_REPO", "/repo")
_cache = {}


class NotFound(Exception):
    pass


def load(rel):
    p = os.path.join(REPO, rel)
    if p not in _cache:
        _cache[p] = ast.parse(open(p).read(), filename=p)
    return _cache[p]


def func(tree, qual):
    parts = qual.split(".")
    body = tree.body
    node = None
    for i, name in enumerate(parts):
        found = None
        for n in body:
            if isinstance(n, (ast.ClassDef, ast.FunctionDef)) and n.name == name:
                found = n
        if found is None:
            raise NotFound(f"{qual}: no {name}")
        node = found
        body = found.body
    if not isinstance(node, ast.FunctionDef):
        raise NotFound(f"{qual} is not a function")
    return node


def dotted(node):
    if isinstance(node, ast.Name):
        return node.id
    if isinstance(node, ast.Attribute):
        b = dotted(node.value)
        return None if b is None else f"{b}.{node.attr}"
    return None


def assigns(fdef, target):
    """All RHS expressions assigned to dotted name `target` inside fdef, in source order."""
    out = []
    for n in ast.walk(fdef):
        if isinstance(n, ast.Assign) and len(n.targets) == 1 and dotted(n.targets[0]) == target:
            out.append(n)
    out.sort(key=lambda n: (n.lineno, n.col_offset))
    return [n.value for n in out]


def assign_value(fdef, target):
    vals = assigns(fdef, target)
    if not vals:
        raise NotFound(f"no assignment to {target} in {fdef.name}")
    return vals[-1]


def local_defs(fdef):
    """name -> expr for locals assigned exactly once (candidates for inlining)."""
    count = {}
    val = {}
    for n in ast.walk(fdef):
        if isinstance(n, ast.Assign) and len(n.targets) == 1 and isinstance(n.targets[0], ast.Name):
            k = n.targets[0].id
            count[k] = count.get(k, 0) + 1
            val[k] = n.value
        elif isinstance(n, (ast.AugAssign,)) and isinstance(n.target, ast.Name):
            count[n.target.id] = count.get(n.target.id, 0) + 2
        elif isinstance(n, (ast.For, ast.comprehension)):
            for t in ast.walk(n.target):
                if isinstance(t, ast.Name):
                    count[t.id] = count.get(t.id, 0) + 2
    return {k: v for k, v in val.items() if count.get(k) == 1}


class _Inliner(ast.NodeTransformer):
    def __init__(self, defs, depth=0):
        self.defs = defs
        self.depth = depth

    def visit_Name(self, node):
        if isinstance(node.ctx, ast.Load) and node.id in self.defs and self.depth < 8:
            sub = copy.deepcopy(self.defs[node.id])
            return _Inliner(self.defs, self.depth + 1).visit(sub)
        return node


def inline(expr, defs):
    return _Inliner(defs).visit(copy.deepcopy(expr))


def parents_map(root):
    pm = {}
    for n in ast.walk(root):
        for c in ast.iter_child_nodes(n):
            pm[c] = n
    return pm


_WRAPPERS = {"int", "round", "float", "max", "min", "math.floor", "math.ceil", "math.trunc", "abs"}


def tick_conversions(fdef, divisor="self.tick_length_secs"):
    """Expressions of the form  wrap*( X / self.tick_length_secs )  (or X * self.ticks_per_second):
    returns [(full_expr, inlined_full_expr)] in source order."""
    pm = parents_map(fdef)
    defs = local_defs(fdef)
    out = []
    for n in ast.walk(fdef):
        hit = False
        if isinstance(n, ast.BinOp) and isinstance(n.op, ast.Div) and dotted(n.right) == divisor:
            hit = True
        if isinstance(n, ast.BinOp) and isinstance(n.op, ast.Mult) and (
                dotted(n.right) in ("self.ticks_per_second", "ticks_per_second") or
                dotted(n.left) in ("self.ticks_per_second", "ticks_per_second")):
            hit = True
        if not hit:
            continue
        top = n
        while True:
            p = pm.get(top)
            if isinstance(p, ast.Call) and dotted(p.func) in _WRAPPERS and top in p.args:
                top = p
            else:
                break
        out.append(top)
    out.sort(key=lambda e: (e.lineno, e.col_offset))
    return [(e, inline(e, defs)) for e in out]


def mentions(expr, attr_name):
    for n in ast.walk(expr):
        if isinstance(n, ast.Attribute) and n.attr == attr_name:
            return True
        if isinstance(n, ast.Name) and n.id == attr_name:
            return True
    return False


def module_const(rel, name):
    tree = load(rel)
    for n in tree.body:
        if isinstance(n, ast.Assign) and len(n.targets) == 1 and isinstance(n.targets[0], ast.Name) \
                and n.targets[0].id == name:
            return ast.literal_eval(n.value)
    raise NotFound(f"{rel}: constant {name}")


def src(node):
    return ast.unparse(node)
