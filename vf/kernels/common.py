"""Shared pieces of the Engine-B obligations."""
import os
import sys
import time
from fractions import Fraction

import z3

from vf.kernel import astsmt as A
from vf.kernel import extract as X

REPO = X.REPO
TOL = Fraction(16, 2 ** 53)          # width (relative) of the "within float rounding" zone
MAXR = 2 ** 20                       # sizes / seconds range
MAXTPS = 100000


def Q(fr):
    fr = Fraction(fr)
    return z3.RealVal(f"{fr.numerator}/{fr.denominator}")


def tick_length_expr(cls_rel, cls_qual):
    """RHS of `self.tick_length_secs = ...` in the given __init__."""
    f = X.func(X.load(cls_rel), cls_qual)
    return X.assign_value(f, "self.tick_length_secs")


class Result:
    def __init__(self):
        self.queries = 0
        self.solver_s = 0.0
        self.encoded = []
        self.notes = []

    def out(self, status, detail, witness=None):
        return {"status": status, "detail": detail, "queries": self.queries, "solver_s": round(self.solver_s, 3),
                "encoded": self.encoded, "witness": witness, "notes": self.notes}


def solve(res, constraints, timeout_ms=60000, logic=None):
    s = z3.Solver() if logic is None else z3.SolverFor(logic)
    s.set("timeout", int(timeout_ms))
    for c in constraints:
        s.add(c)
    t0 = time.time()
    r = str(s.check())
    res.queries += 1
    res.solver_s += time.time() - t0
    return r, (s.model() if r == "sat" else None)


def in_zone(n, x, tol=TOL):
    """three-zone floor spec over exact rationals: n is an admissible value for floor(x) when x may
    be perturbed by a relative `tol`."""
    x = Fraction(x)
    lo = x * (1 - tol)
    hi = x * (1 + tol)
    import math
    return math.floor(lo) <= n <= math.floor(hi)


def zone_formula(n_int, x_real, tol=TOL):
    """z3: n admissible for floor(x) (x >= 0):  n <= x(1+tol)  and  x(1-tol) < n+1."""
    return z3.And(z3.ToReal(n_int) <= x_real * Q(1 + tol), x_real * Q(1 - tol) < z3.ToReal(n_int) + 1)


def import_repo():
    import logging
    if sys.path[0] != REPO:
        sys.path.insert(0, REPO)
    logging.disable(logging.CRITICAL)
    import eudoxia  # noqa
    logging.disable(logging.CRITICAL)
    assert os.path.realpath(eudoxia.__file__).startswith(os.path.realpath(REPO))
    return eudoxia
