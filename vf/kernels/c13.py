"""Engine-B obligations for C13: the arrival-seconds -> tick mapping of WorkloadTrace."""
import ast
import math
from fractions import Fraction

import z3

from vf.kernel import astsmt as A
from vf.kernel import extract as X
from vf.kernels.common import *  # noqa

WL = "eudoxia/workload/workload.py"
CSV = "eudoxia/workload/csv_io.py"


def trace_env(dom, arrival, tick, tps):
    tree = X.load(WL)
    init = X.func(tree, "WorkloadTrace.__init__")
    env = A.Env(dom)
    env.names["ticks_per_second"] = tps
    env.names["self.ticks_per_second"] = tps
    env.names["self.tick_length_secs"] = A.ev(X.assign_value(init, "self.tick_length_secs"), env)
    env.names["self.next_batch[0].arrival_seconds"] = arrival
    env.names["self.current_tick"] = tick
    env.funcs["self.get_next_batch_tick"] = X.func(tree, "WorkloadTrace.get_next_batch_tick")
    return env


def delivery_test():
    """The comparison in WorkloadTrace.run_one_tick that decides whether the next batch is due."""
    f = X.func(X.load(WL), "WorkloadTrace.run_one_tick")
    for n in ast.walk(f):
        if isinstance(n, ast.While):
            test = n.test
            parts = test.values if isinstance(test, ast.BoolOp) and isinstance(test.op, ast.And) else [test]
            keep = [p for p in parts if X.mentions(p, "current_tick")]
            if keep:
                return keep[0] if len(keep) == 1 else ast.BoolOp(op=ast.And(), values=keep)
    raise X.NotFound("delivery test in WorkloadTrace.run_one_tick")


def gentrace_expr():
    f = X.func(X.load(CSV), "WorkloadTraceGenerator.generate_rows")
    return X.assign_value(f, "arrival_seconds")


def gentrace_env(dom, tick, tps):
    init = X.func(X.load(CSV), "WorkloadTraceGenerator.__init__")
    env = A.Env(dom)
    env.names["ticks_per_second"] = tps
    env.names["self.ticks_per_second"] = tps
    env.names["self.tick_length_secs"] = A.ev(X.assign_value(init, "self.tick_length_secs"), env)
    env.names["tick"] = tick
    return env


def delivered(dom, arrival, tick, tps):
    return A.ev(delivery_test(), trace_env(dom, arrival, tick, tps))


# ---- native ---------------------------------------------------------------------------------
def real_delivery_tick(arrival, tps, limit=None):
    """Tick in which the real WorkloadTrace delivers a pipeline with this arrival time."""
    import_repo()
    from eudoxia.workload.workload import WorkloadTrace, PipelineArrival
    from eudoxia.workload.pipeline import Pipeline
    from eudoxia.utils import Priority

    class R:
        def batch_by_arrival(self):
            yield [PipelineArrival(arrival, Pipeline("p", Priority.QUERY))]
    w = WorkloadTrace(R(), tps)
    # jump close to the expected tick instead of iterating millions of ticks
    start = max(0, int(arrival * tps) - 3)
    w.current_tick = start
    t = start
    lim = limit if limit is not None else start + 10
    while t <= lim:
        if w.run_one_tick():
            return t
        t += 1
    return None


def replay_on_grid(k, tps, kind):
    """kind 'decimal': arrival = k/tps;  'gentrace': arrival as written by WorkloadTraceGenerator."""
    if kind == "decimal":
        a = k / tps
    else:
        import_repo()
        from eudoxia.workload.csv_io import WorkloadTraceGenerator

        class W:
            def __init__(self):
                self.t = 0

            def run_one_tick(self):
                self.t += 1
                return []
        # evaluate the generator's own arrival expression for tick k
        g = WorkloadTraceGenerator(W(), tps, (k + 2) / tps)
        dom_expr = gentrace_expr()
        a = eval(compile(ast.Expression(dom_expr), "<gentrace>", "eval"), {"tick": k, "self": g})
    t = real_delivery_tick(a, tps)
    if t is None:
        return f"C13:arrival_never_delivered a={a!r} tps={tps}"
    if t < k:
        return f"C13:delivered_early a={a!r} tps={tps} tick={t} expected={k}"
    if t == k + 1:
        return f"C13:on_grid_arrival_one_tick_late({kind}) a={a!r} tps={tps} delivered_in={t} expected={k}"
    if t > k + 1:
        return f"C13:delivered_more_than_one_tick_late a={a!r} tps={tps} tick={t} expected={k}"
    return ""


def replay_off_grid(a, tps):
    t = real_delivery_tick(a, tps)
    x = Fraction(a) * tps
    lo = math.ceil(x * (1 - TOL))
    hi = math.ceil(x * (1 + TOL))
    if t is None or not (lo <= t <= hi):
        return f"C13:off_grid_arrival_delivered_in_tick_{t}_expected_[{lo},{hi}] a={a!r} tps={tps}"
    return ""


# ---- obligations ------------------------------------------------------------------------------
def bounds(tier="quick"):
    """never early, never more than one tick late, off-grid arrivals in the first tick >= arrival
    (three-zone), monotone in the tick - for all rates (RLX)."""
    res = Result()
    res.encoded += [f"delivery test: {X.src(delivery_test())}",
                    "get_next_batch_tick: " + X.src(X.func(X.load(WL), 'WorkloadTrace.get_next_batch_tick').body[-1])]
    tol = Q(TOL)

    def fresh():
        dom = A.RLX()
        a, t, tps = dom.float_var("a"), dom.int_var("t"), dom.int_var("tps")
        rng = [tps.t >= 1, tps.t <= MAXTPS, a.t >= 0, a.t * z3.ToReal(tps.t) <= 10 ** 7, t.t >= 0, t.t <= 10 ** 7 + 2]
        return dom, a, t, tps, rng
    checks = []
    # early: delivered in tick t although t < a*tps (outside the zone)
    dom, a, t, tps, rng = fresh()
    d = delivered(dom, a, t, tps)
    x = a.t * z3.ToReal(tps.t)
    r, m = solve(res, dom.side + rng + [d.t, z3.ToReal(t.t) < x * (1 - tol)], 60000)
    checks.append(("never_early", r, m, a, tps))
    # late: not delivered in tick t although t >= a*tps (outside the zone)
    dom, a, t, tps, rng = fresh()
    d = delivered(dom, a, t, tps)
    x = a.t * z3.ToReal(tps.t)
    r, m = solve(res, dom.side + rng + [z3.Not(d.t), z3.ToReal(t.t) >= x * (1 + tol)], 60000)
    checks.append(("not_late_off_grid", r, m, a, tps))
    # monotone: delivered at t => delivered at t+1
    dom, a, t, tps, rng = fresh()
    d0 = delivered(dom, a, t, tps)
    d1 = delivered(dom, a, dom.arith("+", t, 1), tps)
    r, m = solve(res, dom.side + rng + [d0.t, z3.Not(d1.t)], 60000)
    checks.append(("monotone", r, m, a, tps))
    bad = [(n, r) for (n, r, m, a_, t_) in checks if r != "unsat"]
    if not bad:
        return res.out("discharged", "never early / at most within the rounding zone late / monotone: RLX unsat for a*tps in [0,1e7], tps in [1,1e5]")
    for (n, r, m, a_, t_) in checks:
        if r == "sat":
            av = float(A.real_to_fraction(m, a_.t))
            tp = int(A.real_to_fraction(m, t_.t))
            rep = replay_off_grid(av, tp)
            if rep:
                return res.out("violated", rep, {"replay": {"kind": "kn", "func": "vf.kernels.c13:replay_off_grid", "args": dict(a=av, tps=tp)}})
    return res.out("inconclusive", f"RLX {bad}; candidates do not reproduce")


def on_grid(kind="decimal", tier="quick", rates_kind="nondyadic"):
    """An arrival that IS a tick boundary (k/tps as a decimal, or the value gentrace writes for tick k)
    must be delivered in tick k.  RLX cannot decide exact boundaries; bit-exact search per rate."""
    res = Result()
    test = delivery_test()
    res.encoded.append(f"delivery test: {X.src(test)}; gentrace arrival: {X.src(gentrace_expr())}")
    # self-test of the encoding on concrete points
    for (k, tp) in ((3, 10), (7, 100), (5, 1), (12, 4), (29, 100), (1000, 1000)):
        dom = A.FPX()
        a = dom.arith("/", k, tp) if kind == "decimal" else A.ev(gentrace_expr(), gentrace_env(dom, dom.lift(k), tp))
        enc = [z3.is_true(z3.simplify(delivered(dom, a, dom.lift(t), tp).t)) for t in (k - 1, k, k + 1)]
        av = k / tp if kind == "decimal" else None
        rep = replay_on_grid(k, tp, kind)
        real_t = None
        if rep == "":
            real_t = k
        elif "one_tick_late" in rep:
            real_t = k + 1
        enc_t = k - 1 if enc[0] else (k if enc[1] else (k + 1 if enc[2] else None))
        if real_t is not None and enc_t != real_t:
            return res.out("inconclusive", f"translator self-test: encoding delivers k={k}@{tp} in tick {enc_t}, real code in {real_t}")
    if rates_kind == "dyadic":
        # tick length 1/tps is exact: the current tree delivers every on-grid arrival on time (must stay so)
        rates = [1, 2, 4, 8, 128, 1024] if tier == "quick" else [1, 2, 4, 8, 16, 32, 64, 128, 256, 512, 1024, 4096, 65536]
    else:
        rates = [3, 7, 10, 100, 1000] if tier == "quick" else [3, 5, 6, 7, 10, 20, 50, 60, 100, 1000, 10000, 100000]
    exact_rates = []
    for tp in rates:
        dom = A.FPX(bw=32)
        k = dom.int_var("k")
        a = dom.arith("/", k, tp) if kind == "decimal" else A.ev(gentrace_expr(), gentrace_env(dom, k, tp))
        d = delivered(dom, a, k, tp)
        cons = [k.t >= 0, k.t <= 1_000_000, z3.Not(d.t)]
        r, m = solve(res, cons, 90000 if tier == "thorough" else 40000)
        if r == "sat":
            kv = A.bv_to_py(m, k.t)
            rep = replay_on_grid(kv, tp, kind)
            if rep:
                return res.out("violated", rep, {"replay": {"kind": "kn", "func": "vf.kernels.c13:replay_on_grid",
                                                            "args": dict(k=kv, tps=tp, kind=kind)}})
            return res.out("inconclusive", f"FPX witness k={kv} tps={tp} does not reproduce natively")
        if r == "unsat":
            exact_rates.append(tp)
    if len(exact_rates) == len(rates):
        return res.out("discharged", f"on-grid ({kind}) arrivals delivered in their own tick: FPX unsat for k in [0,1e6] at rates {rates}")
    return res.out("inconclusive", f"FPX decided only rates {exact_rates} of {rates}")


# ---- grouping of equal arrival times -----------------------------------------------------------
def grouping_test():
    """The test with which CSVWorkloadReader.batch_by_arrival decides that a pipeline belongs to the
    current batch (compares its arrival with the batch's arrival)."""
    f = X.func(X.load(CSV), "CSVWorkloadReader.batch_by_arrival")
    for n in ast.walk(f):
        if isinstance(n, ast.If):
            t = n.test
            if X.mentions(t, "current_arrival_seconds") and X.mentions(t, "pipeline_arrival") and not (
                    isinstance(t, ast.Compare) and any(isinstance(c, ast.Constant) and c.value is None for c in t.comparators)):
                return t
    raise X.NotFound("grouping test in CSVWorkloadReader.batch_by_arrival")


def replay_grouping(a, b, tps):
    """Two pipelines with arrivals a <= b through the real reader + WorkloadTrace: each must be delivered in
    the first tick whose start is >= its own arrival (outside the rounding zone)."""
    import_repo()
    from eudoxia.workload.csv_io import CSVWorkloadReader
    from eudoxia.workload.workload import PipelineArrival
    from eudoxia.workload.pipeline import Pipeline
    from eudoxia.utils import Priority

    class R(CSVWorkloadReader):
        def __init__(self):
            pass

        def batch_by_pipeline(self):
            yield PipelineArrival(a, Pipeline("pa", Priority.QUERY))
            yield PipelineArrival(b, Pipeline("pb", Priority.QUERY))
    wl = R().get_workload(tps)
    start = max(0, int(a * tps) - 2)
    wl.current_tick = start
    got = {}
    for t in range(start, start + 8):
        for p in wl.run_one_tick():
            got[p.pipeline_id] = t
    for pid, arr in (("pa", a), ("pb", b)):
        x = Fraction(arr) * tps
        lo, hi = math.ceil(x * (1 - TOL)), math.ceil(x * (1 + TOL))
        t = got.get(pid)
        if t is None:
            return f"C13:pipeline_not_delivered arrival={arr!r} tps={tps}"
        if t < lo:
            return f"C13:delivered_before_arrival arrival={arr!r} tps={tps} tick={t} (grouped with arrival {a!r})"
        if t > hi + 1:
            return f"C13:delivered_more_than_one_tick_late arrival={arr!r} tps={tps} tick={t}"
    return ""


def grouping(tier="quick"):
    """Pipelines put into one batch are delivered together, at the tick of the batch's FIRST arrival: so the
    grouping test may only hold for arrivals that map to the same tick.  For each listed rate:
    grouped(a, b) and delivered(a, t) and not delivered(b, t) is unsat (RLX + monotone rounding)."""
    res = Result()
    test = grouping_test()
    res.encoded.append(f"batch_by_arrival: {X.src(test)}")
    rates = [1, 2, 3, 4, 10, 100, 1000, 100000] if tier == "quick" else [1, 2, 3, 4, 5, 7, 8, 10, 16, 60, 100, 128, 1000, 10000, 99999, 100000]
    for tp in rates:
        dom = A.RLX(axioms=True)
        a, b, t = dom.float_var("a"), dom.float_var("b"), dom.int_var("t")
        env = A.Env(dom, {"pipeline_arrival.arrival_seconds": b, "current_arrival_seconds": a})
        g = A.ev(test, env)
        da = delivered(dom, a, t, tp)
        db = delivered(dom, b, t, tp)
        rng = [a.t >= 0, b.t >= a.t, b.t * tp <= 10 ** 7, t.t >= 0, t.t <= 10 ** 7 + 2]
        r, m = solve(res, dom.side + rng + [g.t, da.t, z3.Not(db.t)], 60000)
        if r == "unsat":
            continue
        if r == "sat":
            av, bv = float(A.real_to_fraction(m, a.t)), float(A.real_to_fraction(m, b.t))
            rep = replay_grouping(av, bv, tp)
            if rep:
                return res.out("violated", rep, {"replay": {"kind": "kn", "func": "vf.kernels.c13:replay_grouping", "args": dict(a=av, b=bv, tps=tp)}})
            # a handful of adversarial pairs around tick boundaries
            for k in (2, 7, 1000):
                for eps in (5e-10, 1e-12, 1e-7):
                    rep = replay_grouping(k / tp, k / tp + eps, tp)
                    if rep:
                        return res.out("violated", rep, {"replay": {"kind": "kn", "func": "vf.kernels.c13:replay_grouping",
                                                                    "args": dict(a=k / tp, b=k / tp + eps, tps=tp)}})
            return res.out("inconclusive", f"RLX sat at rate {tp}; candidate ({av!r}, {bv!r}) does not reproduce")
        return res.out("inconclusive", f"RLX {r} at rate {tp}")
    return res.out("discharged", f"arrivals grouped into one batch always map to the same tick: RLX(+monotone rounding) unsat at rates {rates}")
