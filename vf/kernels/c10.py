"""Engine-B obligation for C10: the write-out length of a suspension."""
import math
from fractions import Fraction

import z3

from vf.kernel import astsmt as A
from vf.kernel import extract as X
from vf.kernels.common import *  # noqa
from vf.kernels.c05 import container_env, CONT


def suspend_expr():
    f = X.func(X.load(CONT), "Container.suspend_container")
    cands = [inl for (full, inl) in X.tick_conversions(f) if X.mentions(inl, "ram")]
    if not cands:
        raise X.NotFound("write-out tick conversion in Container.suspend_container")
    # the value actually used: what is assigned to self._suspend_ticks_left
    used = X.inline(X.assign_value(f, "self._suspend_ticks_left"), X.local_defs(f))
    return used


def observe_suspend(ram, tps):
    import_repo()
    from eudoxia.workload.pipeline import Pipeline, Segment
    from eudoxia.utils import Priority
    from eudoxia.executor.resource_pool import ResourcePool
    from eudoxia.executor.assignment import Assignment, Suspend
    p = Pipeline("p", Priority.BATCH_PIPELINE)
    a = p.new_operator()
    a.add_segment(Segment(baseline_cpu_seconds=1.5 / tps, memory_gb=0.0, storage_read_gb=0))
    b = p.new_operator([a])
    b.add_segment(Segment(baseline_cpu_seconds=1.5 / tps, memory_gb=0.0, storage_read_gb=0))
    pool = ResourcePool(pool_id=0, cpu_pool=2, ram_pool=4e9, ticks_per_second=tps)
    asg = Assignment(ops=[a, b], cpu=1, ram=ram, priority=Priority.BATCH_PIPELINE, pool_id=0, pipeline_id="p")
    pool.run_one_tick([], [asg])
    c = pool.active_containers[0]
    assert c.can_suspend_container()
    n = 0
    pool.run_one_tick([Suspend(c.container_id, 0)], [])
    n += 1
    while not pool.suspended_containers and n < 3_000_000:
        pool.run_one_tick([], [])
        n += 1
    return n if pool.suspended_containers else None


def replay_suspend(ram, tps):
    x = Fraction(ram) * tps / 20
    if x > 2_000_000:
        return ""
    n = observe_suspend(ram, tps)
    lo = max(1, math.floor(x * (1 - TOL)))
    hi = max(1, math.floor(x * (1 + TOL)))
    if n is None or not (lo <= n <= hi):
        return f"C10:write_out_lasted_{n}_ticks_expected_[{lo},{hi}] ram={ram!r} tps={tps}"
    return ""


def suspend_ticks(tier="quick"):
    res = Result()
    expr = suspend_expr()
    res.encoded.append(f"Container.suspend_container: _suspend_ticks_left = {X.src(expr)}")
    # translator self-test on the repository's own example (100 GB) and boundary witnesses
    fpx_ok = True
    for (ram, tp) in ((100.0, 1), (100.0, 1000), (10.0, 1), (1.0, 15), (25.0, 1), (0.25, 100), (37.5, 7)):
        dom = A.FPX()
        env, _ = container_env(dom, tp, 1, dom.lift(0.0), dom.lift(0.0), None, ram=dom.lift(ram))
        try:
            enc = z3.simplify(A.ev(expr, env).t).as_signed_long()
        except A.Unsupported as e:
            # the bit-exact domain cannot express this source (e.g. round(x, n)); the RLX encoding below can, and every
            # RLX model is replayed on the real container before anything is reported
            res.notes.append(f"bit-exact self-test skipped: {e}")
            fpx_ok = False
            break
        real = observe_suspend(ram, tp)
        if real is not None and enc != real and not (enc <= 0 and real is None):
            return res.out("inconclusive", f"translator self-test: encoding says {enc} ticks, real container {real} (ram={ram}, tps={tp})")
    dom = A.RLX()
    ram, tps = dom.float_var("ram"), dom.int_var("tps")
    env, _ = container_env(dom, tps, 1, dom.lift(0.0), dom.lift(0.0), None, ram=ram)
    n = A.ev(expr, env)
    x = ram.t * z3.ToReal(tps.t) / 20
    rng = [ram.t >= Q(Fraction(1, 2 ** 10)), ram.t <= MAXR, tps.t >= 1, tps.t <= MAXTPS]
    tol = Q(TOL)
    # n == max(1, floor(x)) in the three-zone sense
    nr = z3.ToReal(n.t)
    spec = z3.And(n.t >= 1,
                  z3.Or(z3.And(nr <= x * (1 + tol), x * (1 - tol) < nr + 1),       # floor zone
                        z3.And(n.t == 1, x * (1 - tol) < 1)))                      # minimum
    r0, _m = solve(res, dom.side + rng, 30000)
    if r0 != "sat":
        return res.out("inconclusive", f"vacuity check: ranges+definitions are {r0}")
    r, m = solve(res, dom.side + rng + [z3.Not(spec)], 60000)
    if r == "unsat":
        return res.out("discharged", "suspend ticks = max(1, floor(ram/20*tps)) up to float rounding: RLX unsat for ram in [2^-10,2^20], tps in [1,1e5]")
    if r == "sat":
        rv = float(A.real_to_fraction(m, ram.t))
        tp = int(A.real_to_fraction(m, tps.t))
        rep = replay_suspend(rv, tp)
        if rep:
            return res.out("violated", rep, {"replay": {"kind": "kn", "func": "vf.kernels.c10:replay_suspend", "args": dict(ram=rv, tps=tp)}})
        # bit-exact search at concrete rates
        # the model may sit in the rounding zone of a boundary: look for a robust one (off by a whole tick)
        gross = z3.Or(nr > x * (1 + tol) + 1, x * (1 - tol) > nr + 2)
        for extra in ([tps.t == 1000], [tps.t == 100], [tps.t == 10], []):
            r3, m3 = solve(res, dom.side + rng + [z3.Not(spec), gross, n.t >= 2] + extra, 30000)
            if r3 == "sat":
                rv = float(A.real_to_fraction(m3, ram.t))
                tp = int(A.real_to_fraction(m3, tps.t))
                rep = replay_suspend(rv, tp)
                if rep:
                    return res.out("violated", rep, {"replay": {"kind": "kn", "func": "vf.kernels.c10:replay_suspend", "args": dict(ram=rv, tps=tp)}})
        for tp in (([1, 3, 10, 15, 100, 1000] if tier == "thorough" else [1, 15, 1000]) if fpx_ok else []):
            d2 = A.FPX()
            rm = d2.float_var("ram")
            e2, _ = container_env(d2, tp, 1, d2.lift(0.0), d2.lift(0.0), None, ram=rm)
            n2 = A.ev(expr, e2)
            cons = [z3.fpGEQ(rm.t, z3.FPVal(2.0 ** -10, d2.F)), z3.fpLEQ(rm.t, z3.FPVal(1024.0, d2.F)), n2.t <= 0]
            r2, m2 = solve(res, cons, 60000)
            if r2 == "sat":
                rv = A.fp_to_py(m2, rm.t)
                rep = replay_suspend(rv, tp)
                if rep:
                    return res.out("violated", rep, {"replay": {"kind": "kn", "func": "vf.kernels.c10:replay_suspend", "args": dict(ram=rv, tps=tp)}})
        return res.out("inconclusive", "RLX sat, candidate does not reproduce, FPX found nothing")
    return res.out("inconclusive", f"RLX {r}")
