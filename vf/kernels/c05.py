"""Engine-B obligations for C05 (and C04's OOM tick): tick counts and memory growth of
Container._tick_generator for every tick rate."""
import ast
import math
from fractions import Fraction

import z3

from vf.kernel import astsmt as A
from vf.kernel import extract as X
from vf.kernels.common import *  # noqa
from vf import oracle

CONT = "eudoxia/executor/container.py"
PIPE = "eudoxia/workload/pipeline.py"


def const_of(v):
    t = v.t
    if isinstance(t, (int, float)):
        return t
    if z3.is_int_value(t):
        return t.as_long()
    if z3.is_bv_value(t):
        return t.as_signed_long()
    raise A.Unsupported("np function needs a concrete argument")


def np_funcs():
    import numpy as np

    def np_log(env, x):
        return env.dom.lift(float(np.log(const_of(x))))

    def np_sqrt(env, x):
        return env.dom.lift(float(np.sqrt(const_of(x))))

    def np_power(env, a, b):
        r = np.power(const_of(a), const_of(b))
        return env.dom.lift(int(r) if float(r).is_integer() else float(r))
    return {"np.log": np_log, "np.sqrt": np_sqrt, "np.power": np_power}


def scaling_funcdef(law):
    tree = X.load(PIPE)
    seg = None
    for n in tree.body:
        if isinstance(n, ast.ClassDef) and n.name == "Segment":
            seg = n
    if seg is None:
        raise X.NotFound("class Segment")
    table = None
    for n in seg.body:
        if isinstance(n, ast.Assign) and X.dotted(n.targets[0]) == "SCALING_FUNCS":
            table = n.value
    if not isinstance(table, ast.Dict):
        raise X.NotFound("Segment.SCALING_FUNCS")
    for k, v in zip(table.keys, table.values):
        if isinstance(k, ast.Constant) and k.value == law:
            q = X.dotted(v)
            if q is None:
                raise X.NotFound(f"SCALING_FUNCS[{law}]")
            return X.func(tree, q)
    raise X.NotFound(f"law {law}")


def container_env(dom, tps, cpus, read, base, law, ram=None):
    env = A.Env(dom)
    for n in X.load("eudoxia/utils/consts.py").body:       # every literal module constant
        if isinstance(n, ast.Assign) and len(n.targets) == 1 and isinstance(n.targets[0], ast.Name):
            try:
                env.consts[n.targets[0].id] = ast.literal_eval(n.value)
            except Exception:
                pass
    env.names["ticks_per_second"] = tps
    env.names["self.ticks_per_second"] = tps
    tl = X.assign_value(X.func(X.load(CONT), "Container.__init__"), "self.tick_length_secs")
    env.names["self.tick_length_secs"] = A.ev(tl, env)
    env.names["self.assignment.cpu"] = cpus
    if ram is not None:
        env.names["self.assignment.ram"] = ram
    env.names["self.storage_read_gb"] = read
    env.names["self.baseline_cpu_seconds"] = base
    ptree = X.load(PIPE)
    env.funcs["seg.get_io_seconds"] = X.func(ptree, "Segment.get_io_seconds")
    env.funcs["seg.get_cpu_time"] = X.func(ptree, "Segment.get_cpu_time")
    if law is not None:
        env.funcs["self.scaling_func"] = scaling_funcdef(law)
    env.funcs.update(np_funcs())
    return env, tl


def generator_ticks():
    """(io_expr, cpu_expr): the expressions Container._tick_generator uses as the number of I/O and
    CPU ticks of a segment, with local names inlined.  Located by role, trying in order: the pair
    appended to / assigned as the per-segment tick counts, assignments to io_ticks / cpu_ticks, and
    any  wrap(X / self.tick_length_secs)  conversion."""
    g = X.func(X.load(CONT), "Container._tick_generator")
    defs = X.local_defs(g)
    cands = []
    for n in ast.walk(g):
        if isinstance(n, ast.Call) and isinstance(n.func, ast.Attribute) and n.func.attr == "append" and n.args \
                and isinstance(n.args[0], ast.Tuple) and len(n.args[0].elts) == 2:
            cands.append(tuple(X.inline(e, defs) for e in n.args[0].elts))
    for (a, b) in cands:
        if X.mentions(a, "get_io_seconds") and X.mentions(b, "get_cpu_time"):
            return a, b
    io = cpu = None
    for name in ("io_ticks", "cpu_ticks"):
        vals = X.assigns(g, name)
        for v in vals:
            inl = X.inline(v, defs)
            if name == "io_ticks" and X.mentions(inl, "get_io_seconds"):
                io = io or inl
            if name == "cpu_ticks" and X.mentions(inl, "get_cpu_time"):
                cpu = cpu or inl
    if io is not None and cpu is not None:
        return io, cpu
    for full, inl in X.tick_conversions(g):
        if X.mentions(inl, "get_io_seconds") and not X.mentions(inl, "get_cpu_time"):
            io = io or inl
        elif X.mentions(inl, "get_cpu_time") and not X.mentions(inl, "get_io_seconds"):
            cpu = cpu or inl
    if io is None or cpu is None:
        raise X.NotFound("I/O / CPU tick counts in Container._tick_generator")
    return io, cpu


# ---- native observation of the real code -------------------------------------------------
def observe_ticks(read, base, law, cpus, tps, mem=1.0, alloc=1e9):
    """Run one real container with one operator/segment; returns (ticks until it ends, failed,
    memory trace)."""
    import_repo()
    from eudoxia.workload.pipeline import Pipeline, Segment
    from eudoxia.utils import Priority
    from eudoxia.executor.resource_pool import ResourcePool
    from eudoxia.executor.assignment import Assignment
    p = Pipeline("p", Priority.BATCH_PIPELINE)
    op = p.new_operator()
    op.add_segment(Segment(baseline_cpu_seconds=base, cpu_scaling=law, memory_gb=mem, storage_read_gb=read))
    pool = ResourcePool(pool_id=0, cpu_pool=max(1, cpus), ram_pool=4e9, ticks_per_second=tps)
    a = Assignment(ops=[op], cpu=cpus, ram=alloc, priority=Priority.BATCH_PIPELINE, pool_id=0, pipeline_id="p")
    trace = []
    n = 0
    limit = 5_000_000
    while n < limit:
        try:
            res = pool.run_one_tick([], [a] if n == 0 else [])
        except Exception:
            return None, None, trace
        n += 1
        if res:
            return n, res[0].failed(), trace
        trace.append(pool.active_containers[0].get_current_memory_usage() if pool.active_containers else None)
    return None, None, trace


def exact_cpu_time(law, cpus, base):
    base = Fraction(base)
    t = oracle.cpu_time(law, cpus, base)
    if t is not None:
        return t
    import numpy as np
    if law == "sqrt":
        return base / Fraction(float(np.sqrt(cpus)))
    if law == "log":
        return base / Fraction(float(np.log(cpus) + 1))
    raise ValueError(law)


def replay_ticks(read, base, law, cpus, tps):
    """Native check of the real container against the three-zone spec; '' = holds."""
    if read * tps / 20 + base * tps > 3_000_000:
        return ""      # too long to replay natively
    n, failed, _tr = observe_ticks(read, base, law, cpus, tps)
    if n is None:
        return "C05:container_never_ended"
    if failed:
        return "C05:unexpected_failure"
    xio = Fraction(read) * tps / 20
    xcpu = exact_cpu_time(law, cpus, base) * tps
    lo = math.floor(xio * (1 - TOL)) + math.floor(xcpu * (1 - TOL))
    hi = math.floor(xio * (1 + TOL)) + math.floor(xcpu * (1 + TOL))
    lo, hi = max(1, lo), max(1, hi)
    if not (lo <= n <= hi):
        return f"C05:tick_count_{n}_outside_[{lo},{hi}] read={read!r} base={base!r} law={law} cpus={cpus} tps={tps}"
    return ""


# ---- obligations -------------------------------------------------------------------------
def _ranges_rlx(read, base, tps):
    return [z3.Or(read == 0, z3.And(read >= Q(Fraction(1, 2 ** 100)), read <= MAXR)),
            z3.Or(base == 0, z3.And(base >= Q(Fraction(1, 2 ** 100)), base <= MAXR)),
            tps >= 1, tps <= MAXTPS]


def _cpu_set(tier):
    if tier == "thorough":
        return list(range(1, 65)) + [128, 256]
    return [1, 2, 3, 4, 6, 7, 8, 64]


def _candidate(model, read_v, base_v, tps_v):
    rd = float(A.real_to_fraction(model, read_v.t))
    bs = float(A.real_to_fraction(model, base_v.t))
    tp = int(A.real_to_fraction(model, tps_v.t))
    return rd, bs, tp


def _ticks_obligation(which, law, tier):
    res = Result()
    io_e, cpu_e = generator_ticks()
    expr = io_e if which == "io" else cpu_e
    res.encoded.append(f"Container._tick_generator: {X.src(expr)}")
    cpus_list = [1] if which == "io" else _cpu_set(tier)
    for cpus in cpus_list:
        dom = A.RLX()
        read, base, tps = dom.float_var("read"), dom.float_var("base"), dom.int_var("tps")
        env, tl = container_env(dom, tps, cpus, read, base, law)
        n = A.ev(expr, env)
        if n.kind != "int":
            raise A.Unsupported("tick count is not an integer")
        if which == "io":
            x = read.t * z3.ToReal(tps.t) / 20
        else:
            x = Q(exact_cpu_time(law, cpus, 1)) * base.t * z3.ToReal(tps.t)
        spec = zone_formula(n.t, x)
        r, m = solve(res, dom.side + _ranges_rlx(read.t, base.t, tps.t) + [z3.Not(spec)], 60000)
        if r == "unsat":
            continue
        if r != "sat":
            return res.out("inconclusive", f"RLX {r} for cpus={cpus}")
        rd, bs, tp = _candidate(m, read, base, tps)
        # the model's own point first (the expression may depend on both phases' inputs) ...
        rep = replay_ticks(rd, bs, law, cpus, tp)
        if rep:
            return res.out("violated", rep, {"replay": {"kind": "kn", "func": "vf.kernels.c05:replay_ticks",
                                                        "args": dict(read=rd, base=bs, law=law, cpus=cpus, tps=tp)}})
        # ... then keep the other phase at two ticks so that the one-tick minimum cannot mask the candidate
        if which == "io":
            bs = 2.5 / tp * float(1 / exact_cpu_time(law, cpus, 1))
        else:
            rd = 2.5 * 20 / tp
        rep = replay_ticks(rd, bs, law, cpus, tp)
        if rep:
            return res.out("violated", rep, {"replay": {"kind": "kn", "func": "vf.kernels.c05:replay_ticks",
                                                        "args": dict(read=rd, base=bs, law=law, cpus=cpus, tps=tp)}})
        # candidate did not reproduce (it may only exploit the rounding slack of the relaxation): search for a gross
        # error in exact real arithmetic, far (2^-20 relative) from every rounding zone, so that it must reproduce
        w = _exact_search(res, expr, which, law, cpus, tier)
        if w is not None:
            return w
        # ... and bit-exactly at concrete rates
        w = _fpx_search(res, expr, which, law, cpus, tier)
        if w is not None:
            return w
        return res.out("inconclusive", f"RLX sat (candidate read={rd} base={bs} tps={tp} cpus={cpus} does not reproduce) and FPX found nothing")
    return res.out("discharged", f"{which} ticks of law {law}: RLX unsat for cpus in {cpus_list[:4]}..{cpus_list[-1]} ({len(cpus_list)} values), "
                                 f"read/base in [0,2^20], tps in [1,{MAXTPS}]")


def _exact_search(res, expr, which, law, cpus, tier):
    wide = Fraction(1, 2 ** 20)
    for tp in ([1, 10, 100, 1000] if tier != "thorough" else [1, 2, 7, 10, 100, 1000, 100000]):
        dom = A.RLX(exact=True)
        read, base = dom.float_var("read"), dom.float_var("base")
        env, tl = container_env(dom, dom.lift(tp), cpus, read, base, law)
        n = A.ev(expr, env)
        x = read.t * tp / 20 if which == "io" else Q(exact_cpu_time(law, cpus, 1)) * base.t * tp
        # keep the whole container at three ticks or more so that the one-tick minimum cannot mask the point
        other = Q(exact_cpu_time(law, cpus, 1)) * base.t * tp if which == "io" else read.t * tp / 20
        cons = dom.side + [read.t >= 0, read.t <= 1000, base.t >= 0, base.t <= 1000, other >= 2, x >= 1,
                           z3.Not(zone_formula(n.t, x, wide))]
        r, m = solve(res, cons, 30000)
        if r != "sat":
            continue
        rd = float(A.real_to_fraction(m, read.t))
        bs = float(A.real_to_fraction(m, base.t))
        rep = replay_ticks(rd, bs, law, cpus, tp)
        if rep:
            return res.out("violated", rep, {"replay": {"kind": "kn", "func": "vf.kernels.c05:replay_ticks",
                                                        "args": dict(read=rd, base=bs, law=law, cpus=cpus, tps=tp)}})
    return None


def _fpx_search(res, expr, which, law, cpus, tier):
    rates = [1, 10, 100, 1000, 100000] if tier == "thorough" else [10, 1000]
    for tp in rates:
        dom = A.FPX()
        read, base = dom.float_var("read"), dom.float_var("base")
        env, tl = container_env(dom, tp, cpus, read, base, law)
        try:
            n = A.ev(expr, env)
        except A.Unsupported:
            return None
        # spec in exact terms is not expressible in FP; search for gross errors: |n - x_fp| >= 2
        xf = A.ev(ast.parse("read / 20 * %d" % tp if which == "io" else "base * %d" % tp, mode="eval").body,
                  A.Env(dom, {"read": read, "base": base}))
        if which == "cpu":
            xf = dom.arith("/", xf, dom.lift(float(1 / exact_cpu_time(law, cpus, 1))))
        nf = dom.to_float(n)
        diff = dom.abs(dom.arith("-", nf, xf))
        cons = [z3.fpGEQ(read.t, z3.FPVal(0.0, dom.F)), z3.fpLEQ(read.t, z3.FPVal(1000.0, dom.F)),
                z3.fpGEQ(base.t, z3.FPVal(0.0, dom.F)), z3.fpLEQ(base.t, z3.FPVal(1000.0, dom.F)),
                z3.fpGEQ(diff.t, z3.FPVal(1.5, dom.F))]
        r, m = solve(res, cons, 60000)
        if r == "sat":
            rd, bs = A.fp_to_py(m, read.t), A.fp_to_py(m, base.t)
            if which == "io":
                bs = 0.0
            else:
                rd = 0.0
            rep = replay_ticks(rd, bs, law, cpus, tp)
            if rep:
                return res.out("violated", rep, {"replay": {"kind": "kn", "func": "vf.kernels.c05:replay_ticks",
                                                            "args": dict(read=rd, base=bs, law=law, cpus=cpus, tps=tp)}})
    return None


def selftest():
    """Translator validation: the FPX encoding, evaluated on concrete points, equals what the real
    container does (points from the repository's own tests plus boundary witnesses)."""
    io_e, cpu_e = generator_ticks()
    pts = [(40.0, 2.0, "const", 1, 10), (20.0, 1.0, "linear3", 2, 10), (55.0, 1.0, "const", 4, 100),
           (37.5, 15.0, "linear3", 7, 1000), (10.0, 80.0, "squared", 3, 100), (30.0, 20.0, "linear7", 9, 10),
           (0.001, 0.0001, "const", 1, 10), (3.0, 0.3, "sqrt", 5, 10), (45.0, 5.0, "log", 6, 100),
           (6.0, 0.7, "exp", 3, 100000), (5.8, 0.29, "const", 1, 100)]
    bad = []
    for (rd, bs, law, cpus, tp) in pts:
        dom = A.FPX()
        env, _ = container_env(dom, tp, cpus, dom.lift(rd), dom.lift(bs), law)
        try:
            io = z3.simplify(A.ev(io_e, env).t).as_signed_long()
            cp = z3.simplify(A.ev(cpu_e, env).t).as_signed_long()
        except A.Unsupported:
            # the bit-exact domain cannot express the current source (e.g. round(x, n)); the RLX encoding can, and every RLX
            # model is replayed on the real container before anything is reported
            return []
        n, failed, _ = observe_ticks(rd, bs, law, cpus, tp)
        if n != max(1, io + cp):
            bad.append(f"{(rd, bs, law, cpus, tp)}: encoding {io}+{cp} ticks, real container {n}")
    return bad


def io_ticks(tier="quick"):
    bad = selftest()
    if bad:
        return {"status": "inconclusive", "detail": "translator self-test disagrees with the real container: " + "; ".join(bad[:3]),
                "queries": 0, "solver_s": 0.0}
    return _ticks_obligation("io", "const", tier)


def cpu_ticks(law, tier="quick"):
    return _ticks_obligation("cpu", law, tier)


def growth(tier="quick"):
    """Memory while reading: usage in I/O tick i is (i+1)/tps*20 GB up to float rounding, and the
    comparison with the allocation (the freeze/OOM condition) agrees with the exact one outside
    the rounding zone, so the OOM tick is floor(ram*tps/20) (+1-based) up to the zone."""
    res = Result()
    g = X.func(X.load(CONT), "Container._tick_generator")
    defs = X.local_defs(g)
    growth_e = None
    for n in ast.walk(g):
        if isinstance(n, ast.Call) and X.dotted(n.func) == "self.set_current_memory_usage" and n.args:
            inl = X.inline(n.args[0], defs)
            if X.mentions(inl, "tick_length_secs"):
                growth_e = inl
    if growth_e is None:
        raise X.NotFound("memory growth expression in Container._tick_generator")
    oom_test = None
    for n in ast.walk(g):
        if isinstance(n, ast.While):
            oom_test = n.test
    if oom_test is None:
        raise X.NotFound("over-limit loop in Container._tick_generator")
    res.encoded += [f"growth: {X.src(growth_e)}", f"over-limit test: {X.src(oom_test)}"]
    dom = A.RLX()
    i, tps, ram = dom.int_var("i"), dom.int_var("tps"), dom.float_var("ram")
    env, _ = container_env(dom, tps, 1, dom.lift(0.0), dom.lift(0.0), None, ram=ram)
    env.names["i"] = i
    gv = A.ev(growth_e, env)
    env.names["self._current_memory"] = gv
    over = A.ev(oom_test, env)
    exact = (z3.ToReal(i.t) + 1) * 20 / z3.ToReal(tps.t)
    rng = [i.t >= 0, i.t <= 10 ** 7, tps.t >= 1, tps.t <= MAXTPS, ram.t >= Q(Fraction(1, 2 ** 30)), ram.t <= MAXR]
    tol = Q(TOL)
    # (1) value within rounding of the documented one
    r1, m1 = solve(res, dom.side + rng + [z3.Not(z3.And(gv.t >= exact * (1 - tol), gv.t <= exact * (1 + tol)))], 60000)
    # (2) over-limit decision agrees with the exact one outside the zone
    r2, m2 = solve(res, dom.side + rng + [z3.Or(z3.And(exact * (1 - tol) > ram.t, z3.Not(over.t)),
                                                z3.And(exact * (1 + tol) <= ram.t, over.t))], 60000)
    if r1 == "unsat" and r2 == "unsat":
        return res.out("discharged", "growth value and over-limit decision: RLX unsat for i in [0,1e7], tps in [1,1e5], ram in [2^-30,2^20]")
    for r, m in ((r1, m1), (r2, m2)):
        if r == "sat":
            iv = int(A.real_to_fraction(m, i.t))
            tp = int(A.real_to_fraction(m, tps.t))
            rm = float(A.real_to_fraction(m, ram.t))
            rep = replay_growth(iv, tp, rm)
            if rep:
                return res.out("violated", rep, {"replay": {"kind": "kn", "func": "vf.kernels.c05:replay_growth",
                                                            "args": dict(i=iv, tps=tp, ram=rm)}})
    return res.out("inconclusive", f"RLX {r1}/{r2}; candidates do not reproduce natively")


def replay_growth(i, tps, ram):
    """Real container reading (i+3) ticks worth of data with allocation `ram`: memory in tick i is
    (i+1)*20/tps and the container is OOM-killed in the first tick whose exact demand exceeds ram
    (outside the rounding zone)."""
    if i > 200000:
        i = 200000
    read = (i + 3) * 20.0 / tps
    n, failed, trace = observe_ticks(read, 0.0, "const", 1, tps, mem=None, alloc=ram)
    exact_first = None
    for k in range(i + 3):
        d = Fraction((k + 1) * 20, tps)
        if d * (1 - TOL) > Fraction(ram):
            exact_first = k
            break
    for k, u in enumerate(trace[: i + 1]):
        if u is None:
            break
        d = Fraction((k + 1) * 20, tps)
        if not (d * (1 - TOL) <= Fraction(u) <= d * (1 + TOL)):
            return f"C05:memory_in_io_tick_{k}_is_{u!r}_expected_{float(d)!r} tps={tps}"
    if exact_first is not None:
        # must be killed at exact_first (0-based) or one tick earlier (zone)
        if not failed or not (exact_first <= n <= exact_first + 1):
            lo_zone = None
            for k in range(i + 3):
                if Fraction((k + 1) * 20, tps) * (1 + TOL) > Fraction(ram):
                    lo_zone = k
                    break
            if not failed or not (lo_zone + 1 <= n <= exact_first + 1):
                return f"C05:oom_tick_{n}_failed={failed}_expected_{exact_first + 1} ram={ram!r} tps={tps}"
    return ""
