"""Engine-B obligations for C08: parameter validation arithmetic of run_simulator."""
import ast
from fractions import Fraction

import z3

from vf.kernel import astsmt as A
from vf.kernel import extract as X
from vf.kernels.common import *  # noqa

SIM = "eudoxia/simulator.py"


def prob_assert():
    f = X.func(X.load(SIM), "run_simulator")
    for n in ast.walk(f):
        if isinstance(n, ast.Assert) and X.mentions(n.test, "params") and "interactive_prob" in ast.unparse(n.test):
            return n.test
    raise X.NotFound("probability assertion in run_simulator")


def replay_probs(i, q, b, denom):
    """run the real simulator for a very short run with the triple i/denom, q/denom, b/denom"""
    import_repo()
    from eudoxia.simulator import run_simulator
    params = dict(duration=1, ticks_per_second=1, interactive_prob=i / denom, query_prob=q / denom, batch_prob=b / denom,
                  scheduler_algo="naive", num_pools=1)
    try:
        run_simulator(params)
        ok = True
    except AssertionError as e:
        if "robabilit" not in str(e):
            return f"C08:unexpected_assertion:{e}"
        ok = False
    except Exception as e:
        return f"C08:run_raised:{type(e).__name__}"
    valid = (i + q + b == denom)
    if valid and not ok:
        return f"C08:valid_probability_triple_rejected {i}/{denom} {q}/{denom} {b}/{denom}"
    if (not valid) and ok:
        return f"C08:invalid_probability_triple_accepted {i}/{denom} {q}/{denom} {b}/{denom}"
    return ""


def prob_sum(tier="quick"):
    res = Result()
    test = prob_assert()
    res.encoded.append(f"run_simulator: assert {X.src(test)}")
    denoms = [100, 1000] if tier == "quick" else [10, 20, 100, 1000, 10000]
    for denom in denoms:
        # accepted when the triple sums to one
        dom = A.RLX()
        i, q, b = dom.int_var("i"), dom.int_var("q"), dom.int_var("b")
        names = {"params['interactive_prob']": dom.arith("/", i, denom), "params['query_prob']": dom.arith("/", q, denom),
                 "params['batch_prob']": dom.arith("/", b, denom)}
        ok = A.ev(test, A.Env(dom, names))
        rng = [i.t >= 0, q.t >= 0, b.t >= 0, i.t <= denom, q.t <= denom, b.t <= denom]
        r1, m1 = solve(res, dom.side + rng + [i.t + q.t + b.t == denom, z3.Not(ok.t)], 60000)
        r2, m2 = solve(res, dom.side + rng + [i.t + q.t + b.t != denom, ok.t], 60000)
        if r1 == "unsat" and r2 == "unsat":
            continue
        # bit-exact search for a rejected valid triple
        d2 = A.FPX()
        i2, q2, b2 = d2.int_var("i"), d2.int_var("q"), d2.int_var("b")
        names = {"params['interactive_prob']": d2.arith("/", i2, denom), "params['query_prob']": d2.arith("/", q2, denom),
                 "params['batch_prob']": d2.arith("/", b2, denom)}
        ok2 = A.ev(test, A.Env(d2, names))
        cons = [i2.t >= 0, q2.t >= 0, b2.t >= 0, i2.t <= denom, q2.t <= denom, b2.t <= denom]
        for extra in ([i2.t + q2.t + b2.t == denom, z3.Not(ok2.t)], [i2.t + q2.t + b2.t != denom, ok2.t]):
            r3, m3 = solve(res, cons + extra, 120000)
            if r3 == "sat":
                iv, qv, bv = A.bv_to_py(m3, i2.t), A.bv_to_py(m3, q2.t), A.bv_to_py(m3, b2.t)
                rep = replay_probs(iv, qv, bv, denom)
                if rep:
                    return res.out("violated", rep, {"replay": {"kind": "kn", "func": "vf.kernels.c08:replay_probs",
                                                                "args": dict(i=iv, q=qv, b=bv, denom=denom)}})
        return res.out("inconclusive", f"RLX {r1}/{r2} for denominators {denom}, no bit-exact counterexample")
    return res.out("discharged", f"probability triples i/d, q/d, b/d (d in {denoms}) are accepted iff i+q+b == d: RLX unsat")


def replay_max_ticks(duration, tps):
    import_repo()
    import math
    from eudoxia.simulator import run_simulator
    from eudoxia.workload.workload import Workload

    class Count(Workload):
        def __init__(self):
            self.n = 0

        def run_one_tick(self):
            self.n += 1
            return []
    w = Count()
    try:
        run_simulator(dict(duration=duration, ticks_per_second=tps, scheduler_algo="naive", num_pools=1), workload=w)
    except Exception as e:
        return f"C08:run_raised:{type(e).__name__} duration={duration!r} tps={tps}"
    x = Fraction(duration) * tps
    lo, hi = math.floor(x * (1 - TOL)), math.floor(x * (1 + TOL))
    if not (lo <= w.n <= hi):
        return f"C08:run_of_{duration!r}s_at_{tps}_ticks_per_s_took_{w.n}_ticks_expected_[{lo},{hi}]"
    return ""


def max_ticks(tier="quick"):
    res = Result()
    f = X.func(X.load(SIM), "run_simulator")
    expr = X.assign_value(f, "max_ticks")
    res.encoded.append(f"run_simulator: max_ticks = {X.src(expr)}")
    dom = A.RLX()
    dur, tps = dom.float_var("duration"), dom.int_var("tps")
    env = A.Env(dom, {"params['duration']": dur, "params['ticks_per_second']": tps})
    n = A.ev(expr, env)
    x = dur.t * z3.ToReal(tps.t)
    rng = [tps.t >= 1, tps.t <= MAXTPS, dur.t >= Q(Fraction(1, 2 ** 40)), dur.t <= 10 ** 6]
    r, m = solve(res, dom.side + rng + [z3.Not(z3.And(n.t >= 0, zone_formula(n.t, x)))], 60000)
    if r == "unsat":
        for (d, tp) in ((0.5, 1), (0.05, 10), (2.5, 3), (0.29, 100)):
            rep = replay_max_ticks(d, tp)
            if rep:
                return res.out("violated", rep, {"replay": {"kind": "kn", "func": "vf.kernels.c08:replay_max_ticks", "args": dict(duration=d, tps=tp)}})
        return res.out("discharged", "max_ticks = floor(duration*tps) >= 0 up to float rounding: RLX unsat for duration in {0} u [2^-40,1e6], tps in [1,1e5]")
    if r == "sat":
        d = float(A.real_to_fraction(m, dur.t))
        tp = int(A.real_to_fraction(m, tps.t))
        if d * tp < 200000:
            rep = replay_max_ticks(d, tp)
            if rep:
                return res.out("violated", rep, {"replay": {"kind": "kn", "func": "vf.kernels.c08:replay_max_ticks", "args": dict(duration=d, tps=tp)}})
        for (d, tp) in ((0.5, 1), (2.5, 3), (1.5, 10), (0.25, 100)):
            rep = replay_max_ticks(d, tp)
            if rep:
                return res.out("violated", rep, {"replay": {"kind": "kn", "func": "vf.kernels.c08:replay_max_ticks", "args": dict(duration=d, tps=tp)}})
    return res.out("inconclusive", f"RLX {r}")
