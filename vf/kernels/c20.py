"""Engine-B obligations for C20: `tools snap` and `tools jitter` arithmetic."""
import ast
import math
from fractions import Fraction

import z3

from vf.kernel import astsmt as A
from vf.kernel import extract as X
from vf.kernels.common import *  # noqa

TOOLS = "eudoxia/tools.py"


def snap_stmts():
    """The statements of snap_command that compute `snapped` from `original`."""
    f = X.func(X.load(TOOLS), "snap_command")
    for n in ast.walk(f):
        if isinstance(n, ast.If):
            names = [X.dotted(s.targets[0]) for s in n.body if isinstance(s, ast.Assign) and len(s.targets) == 1]
            if "snapped" in names and "original" in names:
                out = []
                started = False
                for s_ in n.body:
                    if isinstance(s_, ast.Assign) and X.dotted(s_.targets[0]) == "original":
                        started = True
                        continue
                    if not started:
                        continue
                    if isinstance(s_, ast.Assign) and X.dotted(s_.targets[0]) is None:
                        break           # row['arrival_seconds'] = snapped
                    out.append(s_)
                    if isinstance(s_, ast.Assign) and X.dotted(s_.targets[0]) == "snapped":
                        break
                return out
    raise X.NotFound("snapped computation in snap_command")


def snap_eval(dom, a, tps):
    """ite-merged value (used by FPX and the self-test)."""
    env = A.Env(dom, {"original": a, "ticks_per_second": tps})
    names = A.exec_stmts(snap_stmts(), env)
    if "snapped" not in names:
        raise X.NotFound("snapped")
    return dom.lift(names["snapped"])


def snap_paths(dom, a, tps, guards=None):
    """[(guards, snapped)] one per control-flow path."""
    env = A.Env(dom, {"original": a, "ticks_per_second": tps})
    out = []
    for g, names in A.exec_paths(snap_stmts(), env, guards):
        if "snapped" not in names:
            raise X.NotFound("snapped")
        out.append((g, dom.lift(names["snapped"])))
    return out


def real_snap(a, tps):
    """Run the real snap_command on a one-row trace; returns the new arrival as float."""
    import_repo()
    import tempfile, os, io, contextlib, csv
    from eudoxia.tools import snap_command
    d = tempfile.mkdtemp(prefix="vsnap_")
    try:
        src, dst = os.path.join(d, "in.csv"), os.path.join(d, "out.csv")
        with open(src, "w") as f:
            f.write("pipeline_id,arrival_seconds,priority,operator_id,parents,baseline_cpu_seconds,cpu_scaling,memory_gb,storage_read_gb\n")
            f.write(f"p1,{a!r},BATCH_PIPELINE,op1,,1.0,const,,1.0\n")
        with contextlib.redirect_stdout(io.StringIO()):
            snap_command(src, dst, tps, force=True)
        row = list(csv.DictReader(open(dst)))[0]
        return float(row["arrival_seconds"])
    finally:
        import shutil
        shutil.rmtree(d, ignore_errors=True)


def replay_snap(a, tps):
    """'' if the real snap satisfies the statement at (a, tps)."""
    s1 = real_snap(a, tps)
    s2 = real_snap(s1, tps)
    fa, fs = Fraction(a), Fraction(s1)
    if fs > fa:
        return f"C20:snap_moved_arrival_up a={a!r} tps={tps} -> {s1!r}"
    if fa - fs >= Fraction(1, tps) * (1 + TOL) + Fraction(abs(a)) * TOL:
        return f"C20:snap_moved_arrival_by_a_tick_or_more a={a!r} tps={tps} -> {s1!r}"
    if s2 != s1:
        return f"C20:snap_not_idempotent a={a!r} tps={tps} -> {s1!r} -> {s2!r}"
    k = round(a * tps)
    if k / tps == a and s1 != a:
        return f"C20:snap_moved_on_grid_arrival a={a!r} tps={tps} -> {s1!r}"
    return ""


def _viol(rep, a, tps):
    return {"replay": {"kind": "kn", "func": "vf.kernels.c20:replay_snap", "args": dict(a=a, tps=tps)}}


def snap(tier="quick"):
    res = Result()
    stmts = snap_stmts()
    res.encoded.append("snap_command: " + " ; ".join(X.src(s_) for s_ in stmts))
    # translator self-test (values of the repository's own test + rounding witnesses)
    for (a, tp) in ((0.037, 20), (0.053, 20), (0.29, 100), (0.07, 100), (1.15, 100), (3.0000000000000004, 10), (7.3, 1), (0.5, 3)):
        dom = A.FPX()
        try:
            enc = A.fp_to_py(z3.Solver().model() if False else _empty_model(), z3.simplify(snap_eval(dom, dom.lift(a), tp).t))
        except A.Unsupported as e:
            # the bit-exact domain cannot express the current source; RLX (below) can, its models are replayed on the real command
            res.notes.append(f"bit-exact self-test skipped: {e}")
            break
        real = real_snap(a, tp)
        if enc != real:
            return res.out("inconclusive", f"translator self-test: encoding gives {enc!r}, snap_command {real!r} for a={a!r} tps={tp}")
    # ---- RLX proofs, path by path ----------------------------------------------------------
    failed = []
    u_tol = Q(TOL)

    def prove(name, dom, rng, paths, negated_spec_of, a_, t_):
        for g, val in paths:
            r, m = solve(res, dom.side + rng + g + [negated_spec_of(val)], 60000)
            if r != "unsat":
                failed.append((name, r, m, a_, t_))
                return False
        return True
    # all rates at once (symbolic tps): never up, less than one tick down
    dom = A.RLX()
    a, tps = dom.float_var("a"), dom.int_var("tps")
    rng = [tps.t >= 1, tps.t <= MAXTPS, a.t >= 0, a.t * z3.ToReal(tps.t) <= 10 ** 7]
    paths = snap_paths(dom, a, tps)
    prove("never_up", dom, rng, paths, lambda v: v.t > a.t, a, tps)
    prove("less_than_one_tick", dom, rng, paths,
          lambda v: a.t - v.t >= (1 / z3.ToReal(tps.t)) * Q(1 + TOL) + a.t * u_tol, a, tps)
    # per concrete rate: on-grid times stay (a = fl(j/tps)), snapping twice = snapping once
    rates = [1, 2, 3, 7, 10, 20, 60, 100, 1000, 10000, 100000]
    if tier == "thorough":
        rates = sorted(set(list(range(1, 130)) + [250, 256, 500, 1000, 1024, 10000, 65536, 99999, 100000]))
    for tp in rates:
        dom = A.RLX(axioms=True)
        j = dom.int_var("j")
        a = dom.arith("/", j, tp)
        rng = [j.t >= 0, j.t <= 10 ** 7]
        if not prove(f"on_grid_fixed@{tp}", dom, rng, snap_paths(dom, a, tp), lambda v: v.t != a.t, a, dom.lift(tp)):
            break
    for tp in rates:
        dom = A.RLX(axioms=True)
        a = dom.float_var("a")
        rng = [a.t >= 0, a.t * tp <= 10 ** 7]
        ok = True
        for g1, s1 in snap_paths(dom, a, tp):
            if not prove(f"idempotent@{tp}", dom, rng, snap_paths(dom, s1, tp, g1), lambda v: v.t != s1.t, a, dom.lift(tp)):
                ok = False
                break
        if not ok:
            break
    res.notes.append(f"on-grid/idempotence proved per tick rate in {rates[:6]}..{rates[-1]} ({len(rates)} rates)")
    bad = [(n, r) for (n, r, m, a_, t_) in failed if r != "unsat"]
    if not bad:
        return res.out("discharged", "snap: never up, less than one tick down, on-grid times unchanged, idempotent: RLX(+monotone rounding) unsat "
                                     "for a*tps in [0,1e7], tps in [1,1e5]")
    # ---- something is not provable: look for a real counterexample ---------------------------
    for (n, r, m, a_, t_) in failed:
        if r == "sat":
            av = float(A.real_to_fraction(m, a_.t))
            tp = int(A.real_to_fraction(m, t_.t)) if isinstance(t_.t, z3.ExprRef) else int(t_.t)
            rep = replay_snap(av, tp)
            if rep:
                return res.out("violated", rep, _viol(rep, av, tp))
    for tp in ([10, 100, 1000, 3, 7, 100000] if tier == "thorough" else [100, 10, 1000]):
        dom = A.FPX(bw=32)
        jv = dom.int_var("j")
        a = dom.arith("/", jv, tp)
        s1 = snap_eval(dom, a, tp)
        cons = [jv.t >= 0, jv.t <= 1_000_000, z3.Not(z3.fpEQ(s1.t, a.t))]
        r, m = solve(res, cons, 240000 if tier == "thorough" else 100000)
        if r == "sat":
            jj = A.bv_to_py(m, jv.t)
            av = jj / tp
            rep = replay_snap(av, tp)
            if rep:
                return res.out("violated", rep, _viol(rep, av, tp))
    return res.out("inconclusive", f"not provable in RLX ({bad}) and no bit-exact counterexample found")


def _empty_model():
    s = z3.Solver()
    s.check()
    return s.model()


# ---- jitter ---------------------------------------------------------------------------------
def jitter(tier="quick"):
    res = Result()
    f = X.func(X.load(TOOLS), "jitter_command")
    defs = X.local_defs(f)
    jit = X.assign_value(f, "jittered")
    draw = X.assign_value(f, "jitter")
    res.encoded += [f"jittered = {X.src(jit)}", f"jitter = {X.src(draw)}"]
    # the draw must be uniform(0, delta)
    ok_draw = (isinstance(draw, ast.Call) and X.dotted(draw.func) in ("rng.uniform",) and len(draw.args) == 2
               and isinstance(draw.args[0], ast.Constant) and draw.args[0].value == 0 and X.dotted(draw.args[1]) == "delta")
    if not ok_draw:
        rep = replay_jitter(0.5, 7)
        if rep:
            return res.out("violated", rep, {"replay": {"kind": "kn", "func": "vf.kernels.c20:replay_jitter", "args": dict(delta=0.5, seed=7)}})
        return res.out("inconclusive", f"jitter draw is not rng.uniform(0, delta): {X.src(draw)}")
    dom = A.RLX(axioms=True)
    a, jv, delta = dom.float_var("a"), dom.float_var("jit"), dom.float_var("delta")
    env = A.Env(dom, {"original": a, "jitter": jv, "delta": delta})
    out = A.ev(jit, env)
    rng = [a.t >= 0, a.t <= 10 ** 7, delta.t >= 0, delta.t <= 10 ** 6, jv.t >= 0, jv.t <= delta.t]
    tol = Q(TOL)
    r, m = solve(res, dom.side + rng + [z3.Or(out.t < a.t, out.t > (a.t + delta.t) * (1 + tol))], 60000)
    if r == "unsat":
        rep = replay_jitter(0.25, 11)
        if rep:
            return res.out("violated", rep, {"replay": {"kind": "kn", "func": "vf.kernels.c20:replay_jitter", "args": dict(delta=0.25, seed=11)}})
        return res.out("discharged", "jittered in [a, a+delta] up to one rounding for every draw in [0, delta]: RLX unsat; draw is rng.uniform(0, delta)")
    if r == "sat":
        # the model's own point: that arrival, that delta, and the draw the model chose (the generator is replaced by a
        # stub whose uniform(lo, hi) returns it - any value in [lo, hi] is within numpy's contract)
        av = float(A.real_to_fraction(m, a.t))
        dv = float(A.real_to_fraction(m, delta.t))
        jvv = float(A.real_to_fraction(m, jv.t))
        for (aa, dd, jj) in ((av, dv, jvv), (av, 0.0, 0.0), (av, dv, 0.0), (av, dv, dv)):
            rep = replay_jitter(dd, 7, arrival=aa, draw=jj)
            if rep:
                return res.out("violated", rep, {"replay": {"kind": "kn", "func": "vf.kernels.c20:replay_jitter",
                                                            "args": dict(delta=dd, seed=7, arrival=aa, draw=jj)}})
        for (dl, sd) in ((0.5, 7), (0.001, 3), (10.0, 42)):
            rep = replay_jitter(dl, sd)
            if rep:
                return res.out("violated", rep, {"replay": {"kind": "kn", "func": "vf.kernels.c20:replay_jitter", "args": dict(delta=dl, seed=sd)}})
    return res.out("inconclusive", f"RLX {r}; no native counterexample")


TRACE = """pipeline_id,arrival_seconds,priority,operator_id,parents,baseline_cpu_seconds,cpu_scaling,memory_gb,storage_read_gb
p1,0.0,BATCH_PIPELINE,op1,,1.0,const,,1.0
p1,,,op2,op1,2.5,linear3,0,3.0
p2,0.25,QUERY,op1,,1.0,const,7.5,1.0
p3,0.25,INTERACTIVE,op1,,1.0,sqrt,,1.0
p3,,,op2,op1,1.0,const,,1.0
p3,,,op3,op1;op2,1.0,const,,1.0
p4,1.5,BATCH_PIPELINE,op1,,1.0,const,,1.0
"""


class _FixedDraw:
    def __init__(self, v):
        self.v = v

    def uniform(self, lo=0.0, hi=1.0, size=None):
        return min(max(self.v, lo), hi)


def replay_jitter(delta, seed, arrival=None, draw=None):
    """Real jitter_command on a small trace: every arrival moves by an amount in [0, delta], output sorted
    (stable), all other cells untouched, same seed => same output.  With `arrival`, the trace's arrivals are
    arrival, arrival, arrival, arrival+1.25 (a solver-chosen, possibly off-grid instant); with `draw`, the random
    generator is a stub whose uniform(lo, hi) returns that value clipped to [lo, hi]."""
    import_repo()
    import tempfile, os, io, contextlib, csv, shutil
    import eudoxia.tools as T
    from eudoxia.tools import jitter_command
    TRACE = globals()["TRACE"]
    if arrival is not None:
        TRACE = (TRACE.replace("p1,0.0,", f"p1,{arrival!r},").replace("p2,0.25,", f"p2,{arrival!r},")
                 .replace("p3,0.25,", f"p3,{arrival!r},").replace("p4,1.5,", f"p4,{arrival + 1.25!r},"))
    d = tempfile.mkdtemp(prefix="vjit_")
    real_rng = T.np.random.default_rng
    try:
        src = os.path.join(d, "in.csv")
        open(src, "w").write(TRACE)
        outs = []
        for k in range(2):
            dst = os.path.join(d, f"out{k}.csv")
            if draw is not None:
                T.np.random.default_rng = lambda *a_, **k_: _FixedDraw(draw)
            try:
                with contextlib.redirect_stdout(io.StringIO()):
                    jitter_command(src, dst, delta, seed=seed, force=True)
            finally:
                T.np.random.default_rng = real_rng
            outs.append(open(dst).read())
        if outs[0] != outs[1]:
            return "C20:jitter_not_reproducible_for_a_seed"
        rows_in = list(csv.DictReader(io.StringIO(TRACE)))
        rows_out = list(csv.DictReader(io.StringIO(outs[0])))
        if len(rows_in) != len(rows_out):
            return "C20:jitter_changed_row_count"
        by_pid_in = {}
        for r in rows_in:
            by_pid_in.setdefault(r["pipeline_id"], []).append(r)
        by_pid_out = {}
        order = []
        for r in rows_out:
            if r["pipeline_id"] not in by_pid_out:
                order.append(r["pipeline_id"])
            by_pid_out.setdefault(r["pipeline_id"], []).append(r)
        if set(by_pid_in) != set(by_pid_out):
            return "C20:jitter_lost_a_pipeline"
        arr = []
        for pid in order:
            ri, ro = by_pid_in[pid], by_pid_out[pid]
            if len(ri) != len(ro):
                return "C20:jitter_changed_pipeline_rows"
            for x, y in zip(ri, ro):
                for col in x:
                    if col != "arrival_seconds" and x[col] != y[col]:
                        return f"C20:jitter_changed_column_{col}"
            if any(y["arrival_seconds"].strip() for y in ro[1:]):
                return "C20:jitter_set_arrival_on_later_row"
            a0, a1 = float(ri[0]["arrival_seconds"]), float(ro[0]["arrival_seconds"])
            if not (a0 <= a1 <= (a0 + delta) * (1 + float(TOL))):
                return f"C20:jitter_outside_[0,delta] {a0!r} -> {a1!r} delta={delta!r}"
            arr.append(a1)
        if arr != sorted(arr):
            return "C20:jitter_output_not_sorted_by_arrival"
        return ""
    finally:
        shutil.rmtree(d, ignore_errors=True)


# ---- sensitivity-sample seeds --------------------------------------------------------------
def sample_seed():
    """_sensitivity_task must hand seed start_seed+i to the generator: decided statically from the AST
    (which parameter name receives task.seed) plus the generator's own parameter name, then confirmed by
    running the real function with the heavy parts stubbed."""
    res = Result()
    f = X.func(X.load(TOOLS), "_sensitivity_task")
    key = None
    for n in ast.walk(f):
        if isinstance(n, ast.Assign) and isinstance(n.targets[0], ast.Subscript) and X.dotted(n.value) == "task.seed":
            sl = n.targets[0].slice
            if isinstance(sl, ast.Constant):
                key = sl.value
    g = X.func(X.load("eudoxia/workload/workload.py"), "WorkloadGenerator.__init__")
    seed_params = []
    for n in ast.walk(g):
        if isinstance(n, ast.Call) and X.dotted(n.func) in ("np.random.default_rng", "default_rng") and n.args:
            seed_params.append(X.dotted(n.args[0]))
    res.encoded += [f"_sensitivity_task stores task.seed under params[{key!r}]", f"WorkloadGenerator seeds default_rng with {seed_params}"]
    rep = replay_sample_seed(5, 3)
    if rep:
        return res.out("violated", rep, {"replay": {"kind": "kn", "func": "vf.kernels.c20:replay_sample_seed", "args": dict(start_seed=5, n=3)}})
    # symbolic: the seed handed to task i by sensitivity_sample_command equals start_seed + i for every integer pair
    try:
        fs = X.func(X.load(TOOLS), "sensitivity_sample_command")
        stmts = []
        for n in ast.walk(fs):
            if isinstance(n, ast.Assign) and len(n.targets) == 1 and X.dotted(n.targets[0]) in ("start_seed", "seed"):
                stmts.append(n)
        stmts.sort(key=lambda n: n.lineno)
        dom = A.RLX()
        ss, iv = dom.int_var("start_seed"), dom.int_var("i")
        names = A.exec_stmts(stmts, A.Env(dom, {"start_seed": ss, "i": iv}))
        sv = dom.lift(names["seed"])
        r, m = solve(res, dom.side + [ss.t >= 0, ss.t <= 2 ** 31, iv.t >= 0, iv.t <= 10 ** 6, sv.t != ss.t + iv.t], 30000)
        res.encoded.append("sensitivity_sample_command: " + " ; ".join(X.src(x) for x in stmts))
        if r == "sat":
            s0, i0 = int(A.real_to_fraction(m, ss.t)), int(A.real_to_fraction(m, iv.t))
            rep = replay_sample_tasks(s0, min(i0 + 1, 4))
            if rep:
                return res.out("violated", rep, {"replay": {"kind": "kn", "func": "vf.kernels.c20:replay_sample_tasks", "args": dict(start_seed=s0, n=min(i0 + 1, 4))}})
        elif r != "unsat":
            res.notes.append(f"symbolic seed check: {r}")
    except (A.Unsupported, X.NotFound, KeyError) as e:
        res.notes.append(f"symbolic seed check not encodable: {e}")
    # the command itself must build task i with seed start_seed + i - also for the boundary value 0
    for ss in (0, 1, 7, 42):
        rep = replay_sample_tasks(ss, 3)
        if rep:
            return res.out("violated", rep, {"replay": {"kind": "kn", "func": "vf.kernels.c20:replay_sample_tasks", "args": dict(start_seed=ss, n=3)}})
    if key is not None and key in seed_params:
        return res.out("discharged", f"seed of sample i reaches default_rng through parameter {key!r}; start_seed+i confirmed on the real function")
    return res.out("inconclusive", f"cannot relate params[{key!r}] to {seed_params}")


def replay_sample_seed(start_seed, n):
    import_repo()
    import tempfile, os, shutil, sys, io
    import eudoxia.tools as T
    import numpy as np
    d = tempfile.mkdtemp(prefix="vsens_")
    seen = []
    real_rng = np.random.default_rng
    real_cmd = T.sensitivity_command
    so, se = sys.stdout, sys.stderr
    try:
        pf = os.path.join(d, "p.toml")
        open(pf, "w").write("duration = 2\nticks_per_second = 10\nwaiting_seconds_mean = 0.5\nrandom_seed = 999\n")

        def rec(seed=None):
            seen.append(seed)
            return real_rng(seed)
        np.random.default_rng = rec
        T.sensitivity_command = lambda *a, **k: None
        tasks = []
        for i in range(n):
            tasks.append(T.SensitivityTask(workload_index=i, params_file=pf, output_dir=d, seed=start_seed + i, jitter_seed=1))
        outs = []
        for t in tasks:
            seen.clear()
            T._sensitivity_task(t)
            sys.stdout, sys.stderr = so, se
            if not seen or seen[0] != t.seed:
                return f"C20:sample_{t.workload_index}_generated_from_seed_{seen[:1]}_not_{t.seed}"
            outs.append(open(os.path.join(d, f"w{t.workload_index}.csv")).read())
        if len(set(outs)) != len(outs):
            return "C20:different_samples_are_the_same_workload"
        return ""
    finally:
        sys.stdout, sys.stderr = so, se
        np.random.default_rng = real_rng
        T.sensitivity_command = real_cmd
        shutil.rmtree(d, ignore_errors=True)


def tool_columns(tier="quick"):
    """Concrete validation runs of the real tools on small traces (translator validation + the structural
    clauses: same pipelines, other columns untouched, stable order)."""
    res = Result()
    for (dl, sd) in ((0.0, 1), (0.5, 7), (0.001, 3), (10.0, 42), (1e-9, 5)):
        rep = replay_jitter(dl, sd)
        if rep:
            return res.out("violated", rep, {"replay": {"kind": "kn", "func": "vf.kernels.c20:replay_jitter", "args": dict(delta=dl, seed=sd)}})
    for tp in (1, 3, 10, 20, 100, 1000):
        rep = replay_snap_trace(tp)
        if rep:
            return res.out("violated", rep, {"replay": {"kind": "kn", "func": "vf.kernels.c20:replay_snap_trace", "args": dict(tps=tp)}})
    res.queries = 0
    return res.out("discharged", "real jitter_command / snap_command on a 4-pipeline trace: pipelines, row grouping and every non-arrival cell preserved; jitter sorted and reproducible")


def replay_snap_trace(tps):
    import_repo()
    import tempfile, os, io, contextlib, csv, shutil
    from eudoxia.tools import snap_command
    d = tempfile.mkdtemp(prefix="vsnapt_")
    try:
        src, dst = os.path.join(d, "in.csv"), os.path.join(d, "out.csv")
        open(src, "w").write(TRACE)
        with contextlib.redirect_stdout(io.StringIO()):
            snap_command(src, dst, tps, force=True)
        ri = list(csv.DictReader(io.StringIO(TRACE)))
        ro = list(csv.DictReader(open(dst)))
        if len(ri) != len(ro):
            return "C20:snap_changed_row_count"
        for x, y in zip(ri, ro):
            for col in x:
                if col == "arrival_seconds":
                    if bool(x[col].strip()) != bool(y[col].strip()):
                        return "C20:snap_changed_which_rows_carry_an_arrival"
                elif x[col] != y[col]:
                    return f"C20:snap_changed_column_{col}"
        return ""
    finally:
        shutil.rmtree(d, ignore_errors=True)


def replay_sample_tasks(start_seed, n):
    """Run the real sensitivity_sample_command with the process pool and the per-task function stubbed:
    task i must carry seed start_seed + i."""
    import_repo()
    import tempfile, os, shutil, io, contextlib
    import eudoxia.tools as T
    d = tempfile.mkdtemp(prefix="vsens2_")
    tasks = []

    class FakePool:
        def __init__(self, processes=None):
            pass

        def __enter__(self):
            return self

        def __exit__(self, *a):
            return False

        def map(self, fn, items):
            out = []
            for it in items:
                tasks.append(it)
                out.append((it.workload_index, True))
            return out
    real_mp = T.multiprocessing
    try:
        pf = os.path.join(d, "p.toml")
        open(pf, "w").write("duration = 2\nticks_per_second = 10\n")

        class MP:
            Pool = FakePool
        T.multiprocessing = MP
        with contextlib.redirect_stdout(io.StringIO()):
            T.sensitivity_sample_command(pf, os.path.join(d, "out"), n, start_seed=start_seed, jitter_seed=1)
        if len(tasks) != n:
            return f"C20:sensitivity_sample_built_{len(tasks)}_tasks_for_{n}_samples"
        for i, t in enumerate(tasks):
            if t.seed != start_seed + i or t.workload_index != i:
                return f"C20:sample_{i}_uses_seed_{t.seed}_not_{start_seed}+{i}"
        return ""
    finally:
        T.multiprocessing = real_mp
        shutil.rmtree(d, ignore_errors=True)


# ---- reproducibility of jitter across interpreter processes (hash seeds) -------------------------------------------
_HS_SCRIPT = r"""
import os, sys, io, contextlib, logging
sys.path.insert(0, os.environ["EUDOXIA_REPO"])
logging.disable(logging.CRITICAL)
from eudoxia.tools import jitter_command, snap_command
d = sys.argv[1]
with contextlib.redirect_stdout(io.StringIO()):
    jitter_command(os.path.join(d, "in.csv"), os.path.join(d, "j.csv"), 0.75, seed=int(sys.argv[2]), force=True)
    snap_command(os.path.join(d, "j.csv"), os.path.join(d, "s.csv"), 10, force=True)
sys.stdout.write(open(os.path.join(d, "j.csv")).read() + "====\n" + open(os.path.join(d, "s.csv")).read())
"""


def replay_jitter_hashseed(seed=5, hashseeds=(0, 1, 2, 3, 4, 5)):
    """Native differential run (not a solver verdict): the real jitter_command (then snap_command) on one trace with
    eight pipelines in fresh interpreter processes that differ only in PYTHONHASHSEED must write identical files."""
    import tempfile, shutil, subprocess
    d = tempfile.mkdtemp(prefix="vjhs_")
    try:
        rows = ["pipeline_id,arrival_seconds,priority,operator_id,parents,baseline_cpu_seconds,cpu_scaling,memory_gb,storage_read_gb"]
        for i, pid in enumerate(["p1", "p2", "p3", "p10", "q", "zeta", "p11", "a"]):
            rows.append(f"{pid},{0.5 * (i // 2)!r},BATCH_PIPELINE,op1,,1.5,const,,2.0")
            if i % 2:
                rows.append(f"{pid},,,op2,op1,0.5,linear3,4.0,1.0")
        open(os.path.join(d, "in.csv"), "w").write("\n".join(rows) + "\n")
        outs = {}
        for hs in hashseeds:
            env = dict(os.environ, PYTHONHASHSEED=str(hs), EUDOXIA_REPO=REPO)
            env.pop("PYTHONPATH", None)
            r = subprocess.run([sys.executable, "-B", "-c", _HS_SCRIPT, d, str(seed)], env=env, capture_output=True, text=True, timeout=120)
            if r.returncode != 0:
                return f"C20:jitter_raised_in_fresh_process:{r.stderr.strip().splitlines()[-1][:120] if r.stderr.strip() else r.returncode}"
            outs[hs] = r.stdout
        ref = outs[hashseeds[0]]
        for hs in hashseeds[1:]:
            if outs[hs] != ref:
                return f"C20:jitter_not_reproducible_for_a_seed(differs between PYTHONHASHSEED={hashseeds[0]} and {hs})"
        return ""
    finally:
        shutil.rmtree(d, ignore_errors=True)


def jitter_hashseed(tier="quick"):
    res = Result()
    for sd in ((5, 42) if tier == "quick" else (5, 42, 0, 1, 7, 123456)):
        hs = (0, 1, 2, 3, 4, 5) if tier == "quick" else tuple(range(12))
        rep = replay_jitter_hashseed(sd, hs)
        if rep:
            return res.out("violated", rep, {"replay": {"kind": "kn", "func": "vf.kernels.c20:replay_jitter_hashseed", "args": dict(seed=sd, hashseeds=list(hs))}})
    res.notes.append("native differential run, not a solver verdict: hash randomisation of the interpreter is not a solver variable")
    return res.out("discharged", "real jitter_command + snap_command in fresh processes under 6 (12) hash seeds: byte-identical output")
