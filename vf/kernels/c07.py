"""C07, the clause "in a fresh process under a different hash seed": native differential runs (NOT a solver verdict -
the interpreter's hash randomisation and uuid4's entropy are not solver variables).  The real run_simulator is run in
fresh interpreter processes that differ only in PYTHONHASHSEED (and, inevitably, in the uuid4 identifiers they draw);
the tick-by-tick log of arrivals, decisions and results - recorded by wrapping Executor.run_one_tick and the workload's
run_one_tick, identifiers replaced by first-appearance numbers - and the returned statistics must be byte-identical."""
import json
import os
import subprocess
import sys
from concurrent.futures import ThreadPoolExecutor

from vf.kernels.common import *  # noqa

_SCRIPT = r"""
import os, sys, json, logging
sys.path.insert(0, os.environ["EUDOXIA_REPO"])
logging.disable(logging.CRITICAL)
import eudoxia
from eudoxia.simulator import run_simulator
from eudoxia.executor.executor import Executor
import eudoxia.workload.workload as W
logging.disable(logging.CRITICAL)
params = json.loads(sys.argv[1])
log = []
names = {}
def nm(x):
    return names.setdefault(str(x), len(names))
real_tick = Executor.run_one_tick
def tick(self, suspensions, assignments):
    ent = {"s": [(s.pool_id, nm(s.container_id)) for s in suspensions],
           "a": [(a.pool_id, a.cpu, a.ram, str(a.priority), [nm(o.id) for o in a.ops]) for a in assignments]}
    res = real_tick(self, suspensions, assignments)
    ent["r"] = [(r.pool_id, r.cpu, r.ram, str(r.error), [nm(o.id) for o in r.ops], nm(r.container_id)) for r in res]
    log.append(ent)
    return res
Executor.run_one_tick = tick
for cls in (W.WorkloadGenerator, W.WorkloadTrace):
    def wrap(cls=cls):
        real = cls.run_one_tick
        def run_one_tick(self, *a, **k):
            out = real(self, *a, **k)
            if out:
                log.append({"arr": [(nm(p.pipeline_id), str(p.priority), [nm(o.id) for o in p.values]) for p in out]})
            return out
        cls.run_one_tick = run_one_tick
    wrap()
if params.pop("_trace", None):
    import io
    from eudoxia.workload.csv_io import CSVWorkloadReader
    text = params.pop("_trace_text")
    wl = CSVWorkloadReader(io.StringIO(text)).get_workload(params["ticks_per_second"])
    st = run_simulator(params, workload=wl)
else:
    st = run_simulator(params)
print(json.dumps({"stats": st.to_dict(), "log": log}, default=repr, sort_keys=True))
"""

TRACE = """pipeline_id,arrival_seconds,priority,operator_id,parents,baseline_cpu_seconds,cpu_scaling,memory_gb,storage_read_gb
p1,0.0,BATCH_PIPELINE,op1,,1.0,const,10,1
p1,,,op2,op1,2.0,const,30,1
p1,,,op3,op1,1.0,const,10,1
p1,,,op4,op2;op3,1.0,const,5,1
p2,0.5,INTERACTIVE,op1,,1.0,const,20,1
p2,,,op2,,2.0,const,25,1
p2,,,op3,op1;op2,1.0,const,5,1
p3,1.0,QUERY,op1,,0.5,const,5,1
p4,1.0,BATCH_PIPELINE,op1,,1.0,const,40,1
p4,,,op2,op1,1.0,const,45,1
p4,,,op3,op1,1.0,const,45,1
p5,2.0,QUERY,op1,,0.5,const,8,1
p6,2.0,BATCH_PIPELINE,op1,,1.0,const,12,1
p6,,,op2,op1,1.0,const,12,1
"""


def _params(algo, multi, trace):
    p = dict(duration=12, ticks_per_second=4, waiting_seconds_mean=0.75, num_pipelines=3, num_operators=3,
             interactive_prob=0.3, query_prob=0.3, batch_prob=0.4, scheduler_algo=algo,
             num_pools=2 if algo in ("priority-pool", "naive") else 1, cpus_per_pool=4, ram_gb_per_pool=48, random_seed=11,
             multi_operator_containers=multi, allow_memory_overcommit=(algo == "overbook"))
    if trace:
        p["_trace"] = True
        p["_trace_text"] = TRACE
    return p


def _one(params, hs):
    env = dict(os.environ, PYTHONHASHSEED=str(hs), EUDOXIA_REPO=REPO)
    env.pop("PYTHONPATH", None)
    r = subprocess.run([sys.executable, "-B", "-c", _SCRIPT, json.dumps(params)], env=env, capture_output=True, text=True, timeout=300)
    if r.returncode != 0:
        last = r.stderr.strip().splitlines()[-1][:160] if r.stderr.strip() else str(r.returncode)
        return "EXC:" + last
    return r.stdout


def replay_hashseed(algo, multi, trace, hashseeds=(0, 1, 2, 3)):
    params = _params(algo, multi, trace)
    with ThreadPoolExecutor(max_workers=len(hashseeds)) as ex:
        outs = list(ex.map(lambda hs: _one(params, hs), hashseeds))
    if all(o.startswith("EXC:") for o in outs):
        # the run itself fails in every process alike: not a reproducibility matter (C08's subject)
        return "" if len(set(outs)) == 1 else f"C07:run_fails_differently_between_processes {sorted(set(outs))[:2]}"
    for hs, o in zip(hashseeds[1:], outs[1:]):
        if o != outs[0]:
            where = "statistics"
            try:
                a, b = json.loads(outs[0]), json.loads(o)
                if a["stats"] == b["stats"]:
                    where = "tick log"
            except Exception:
                where = "outcome"
            return f"C07:run_differs_between_fresh_processes({where}; PYTHONHASHSEED={hashseeds[0]} vs {hs}; {algo}, {'multi' if multi else 'single'}, {'trace' if trace else 'generated'})"
    return ""


def hashseed_processes(tier="quick"):
    res = Result()
    hs = (0, 1, 2, 3) if tier == "quick" else tuple(range(8))
    n = 0
    for algo in ("naive", "priority", "priority-pool", "overbook"):
        for multi in (True, False):
            if algo == "priority-pool" and not multi:
                continue        # known finding C08-F1: the run aborts
            for trace in (True, False):
                rep = replay_hashseed(algo, multi, trace, hs)
                n += len(hs)
                if rep:
                    return res.out("violated", rep, {"replay": {"kind": "kn", "func": "vf.kernels.c07:replay_hashseed",
                                                                "args": dict(algo=algo, multi=multi, trace=trace, hashseeds=list(hs))}})
    res.notes.append(f"native differential runs, not a solver verdict: {n} fresh interpreter processes")
    return res.out("discharged", f"{n} fresh processes (4 schedulers x container modes x branching trace / generated workload x {len(hs)} hash seeds, "
                                 "fresh uuid4 identifiers each): identical tick logs and statistics")
