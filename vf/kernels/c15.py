"""Engine-B obligation for C15: waiting_ticks_mean = floor(waiting_seconds_mean * tps)."""
from fractions import Fraction
import z3
from vf.kernel import astsmt as A
from vf.kernel import extract as X
from vf.kernels.common import *  # noqa


def waiting_ticks(tier="quick"):
    res = Result()
    f = X.func(X.load("eudoxia/workload/workload.py"), "WorkloadGenerator.__init__")
    expr = X.assign_value(f, "self.waiting_ticks_mean")
    res.encoded.append(f"WorkloadGenerator.__init__: waiting_ticks_mean = {X.src(expr)}")
    dom = A.RLX()
    w, tps = dom.float_var("w"), dom.int_var("tps")
    n = A.ev(expr, A.Env(dom, {"waiting_seconds_mean": w, "ticks_per_second": tps}))
    x = w.t * z3.ToReal(tps.t)
    rng = [tps.t >= 1, tps.t <= MAXTPS, w.t >= Q(Fraction(1, 2 ** 40)), w.t <= 10 ** 5]
    r, m = solve(res, dom.side + rng + [z3.Not(z3.And(n.t >= 0, zone_formula(n.t, x)))], 60000)
    if r == "unsat":
        return res.out("discharged", "waiting_ticks_mean = floor(waiting_seconds_mean*tps) up to float rounding: RLX unsat, w in [2^-40,1e5], tps in [1,1e5]")
    if r == "sat":
        wv = float(A.real_to_fraction(m, w.t))
        tp = int(A.real_to_fraction(m, tps.t))
        rep = replay_waiting(wv, tp)
        if rep:
            return res.out("violated", rep, {"replay": {"kind": "kn", "func": "vf.kernels.c15:replay_waiting", "args": dict(w=wv, tps=tp)}})
    return res.out("inconclusive", f"RLX {r}")


def replay_waiting(w, tps):
    import math
    import_repo()
    from eudoxia.workload.workload import WorkloadGenerator
    g = WorkloadGenerator(waiting_seconds_mean=w, num_pipelines=1, num_operators=1, num_segs=1, cpu_io_ratio=0.5, random_seed=1,
                          batch_prob=0.6, query_prob=0.1, interactive_prob=0.3, ticks_per_second=tps)
    x = Fraction(w) * tps
    lo, hi = math.floor(x * (1 - TOL)), math.floor(x * (1 + TOL))
    if not (lo <= g.waiting_ticks_mean <= hi):
        return f"C15:waiting_ticks_mean_{g.waiting_ticks_mean}_expected_[{lo},{hi}] w={w!r} tps={tps}"
    return ""
