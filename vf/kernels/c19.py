"""Engine-B obligation for C19: the poll-interval arithmetic of rest_scheduler."""
import ast
from fractions import Fraction

import z3

from vf.kernel import astsmt as A
from vf.kernel import extract as X
from vf.kernels.common import *  # noqa

REST = "eudoxia/scheduler/rest.py"


def pieces():
    f = X.func(X.load(REST), "rest_scheduler")
    cur = X.assign_value(f, "current_sim_time")
    since = X.assign_value(f, "time_since_last")
    skip = None
    for n in ast.walk(f):
        if isinstance(n, ast.If) and X.mentions(n.test, "time_since_last") and X.mentions(n.test, "rest_poll_interval"):
            parts = n.test.values if isinstance(n.test, ast.BoolOp) else [n.test]
            keep = [p for p in parts if X.mentions(p, "time_since_last")]
            skip = keep[0]
    if skip is None:
        raise X.NotFound("poll-interval test in rest_scheduler")
    return cur, since, skip


def poll_rule(tier="quick"):
    """On a tick without arrivals and results the bridge calls the external scheduler only if at least one
    poll interval of simulated time has passed since the last call (up to float rounding of the simulated
    times), and it does call once more than an interval has passed."""
    res = Result()
    cur_e, since_e, skip_e = pieces()
    res.encoded += [f"current_sim_time = {X.src(cur_e)}", f"time_since_last = {X.src(since_e)}", f"skip if {X.src(skip_e)}"]
    dom = A.RLX()
    cur, last, tps, poll = dom.int_var("cur"), dom.int_var("last"), dom.int_var("tps"), dom.float_var("poll")
    env = A.Env(dom, {"s.current_tick": cur, "ticks_per_second": tps, "s.rest_poll_interval": poll})
    # the time of the last call was computed by the same expression at tick `last`
    env_last = A.Env(dom, {"s.current_tick": last, "ticks_per_second": tps})
    last_time = A.ev(cur_e, env_last)
    env.names["current_sim_time"] = A.ev(cur_e, env)
    env.names["s.last_call_sim_time"] = last_time
    env.names["time_since_last"] = A.ev(since_e, env)
    skip = A.ev(skip_e, env)
    T = z3.ToReal(tps.t)
    exact = (z3.ToReal(cur.t) - z3.ToReal(last.t)) / T
    slack = Q(4 * Fraction(1, 2 ** 53)) * z3.ToReal(cur.t) / T
    rng = [tps.t >= 1, tps.t <= MAXTPS, last.t >= 0, cur.t > last.t, cur.t <= 10 ** 7, poll.t >= 0, poll.t <= 10 ** 4]
    r0, _ = solve(res, dom.side + rng, 30000)
    if r0 != "sat":
        return res.out("inconclusive", f"vacuity check {r0}")
    # early idle call: not skipped although clearly less than an interval has passed
    r1, m1 = solve(res, dom.side + rng + [z3.Not(skip.t), exact < poll.t - slack], 60000)
    # missing idle call: skipped although clearly more than an interval has passed
    r2, m2 = solve(res, dom.side + rng + [skip.t, exact > poll.t + slack], 60000)
    if r1 == "unsat" and r2 == "unsat":
        return res.out("discharged", "idle calls happen iff a poll interval of simulated time has passed (up to rounding of the simulated times): "
                                     "RLX unsat for ticks <= 1e7, tps in [1,1e5], poll in [0,1e4]")
    # small witnesses replay quickly: ask again inside a small box
    small = [cur.t <= 400, tps.t <= 20]
    # (with a 10 % margin so that the witness does not sit on a rounding edge)
    for idx, extra in enumerate(([z3.Not(skip.t), exact < poll.t * Q(Fraction(9, 10)) - slack, last.t >= 1],
                                 [skip.t, exact > poll.t * Q(Fraction(11, 10)) + slack, last.t >= 1])):
        rs, ms = solve(res, dom.side + rng + small + extra, 30000)
        if rs == "sat":
            if idx == 0:
                r1, m1 = rs, ms
            else:
                r2, m2 = rs, ms
    for r, m in ((r1, m1), (r2, m2)):
        if r == "sat":
            args = dict(cur=int(A.real_to_fraction(m, cur.t)), last=int(A.real_to_fraction(m, last.t)), tps=int(A.real_to_fraction(m, tps.t)),
                        poll=float(A.real_to_fraction(m, poll.t)))
            rep = replay_poll(**args)
            if rep:
                return res.out("violated", rep, {"replay": {"kind": "kn", "func": "vf.kernels.c19:replay_poll", "args": args}})
    # the solver's witness may sit on a rounding edge of the (changed) test: try the neighbourhood it points at
    for tp in (1, 2, 10):
        for pt in (2, 5, 8):
            args = dict(cur=2 + 3 * pt, last=2, tps=tp, poll=pt / tp)
            rep = replay_poll(**args)
            if rep:
                return res.out("violated", rep, {"replay": {"kind": "kn", "func": "vf.kernels.c19:replay_poll", "args": args}})
    return res.out("inconclusive", f"RLX {r1}/{r2}; candidates do not reproduce")


def replay_poll(cur, last, tps, poll):
    """Real rest_scheduler with a stub server: last call at tick `last` (forced by an arrival), then idle ticks."""
    if cur > 200000:
        return ""
    import_repo()
    import eudoxia.scheduler.rest as rest_mod
    from eudoxia.scheduler import Scheduler
    from eudoxia.executor import Executor
    from eudoxia.workload.pipeline import Pipeline, Segment
    from eudoxia.utils import Priority
    calls = []

    class Resp:
        def raise_for_status(self):
            pass

        def json(self):
            return {"suspensions": [], "assignments": []}

    class Srv:
        def post(self, url, json=None):
            if url.endswith("/schedule"):
                calls.append(json["tick"])
            return Resp()
    real = rest_mod.requests
    rest_mod.requests = Srv()
    try:
        params = dict(scheduler_algo="rest", num_pools=1, cpus_per_pool=1, ram_gb_per_pool=1, ticks_per_second=tps, multi_operator_containers=True,
                      allow_memory_overcommit=False, duration=(cur + 2) / tps, rest_poll_interval=poll, rest_scheduler_addr="x")
        ex = Executor(**params)
        sch = Scheduler(ex, **params)
        p = Pipeline("p", Priority.QUERY)
        p.new_operator().add_segment(Segment(baseline_cpu_seconds=1.0))
        for t in range(1, cur + 1):
            sch.run_one_tick([], [p] if t == last else [])
        # every idle tick after the forced call is judged against the rule
        prev = last if last in calls else 0
        for t in range(last + 1, cur + 1):
            exact = Fraction(t - prev, tps)
            slack = 4 * Fraction(1, 2 ** 53) * Fraction(t, tps)
            if t in calls:
                if exact < Fraction(poll) - slack:
                    return f"C19:idle_call_before_poll_interval tick={t} previous_call={prev} tps={tps} poll={poll!r}"
                prev = t
            elif exact > Fraction(poll) + slack:
                return f"C19:no_idle_call_after_poll_interval tick={t} previous_call={prev} tps={tps} poll={poll!r}"
        return ""
    finally:
        rest_mod.requests = real
