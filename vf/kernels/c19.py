"""Engine-B obligation for C19: the poll-interval arithmetic of rest_scheduler."""
import ast
from fractions import Fraction

import z3

from vf.kernel import astsmt as A
from vf.kernel import extract as X
from vf.kernels.common import *  # noqa


def V_int(dom, term):
    return A.V("int", term)

REST = "eudoxia/scheduler/rest.py"


class _Params(ast.NodeTransformer):
    """s.params.get("k", default) / s.params["k"]  ->  Name param_k (the parameter dictionary is the harness's input)."""

    def visit_Call(self, node):
        self.generic_visit(node)
        if X.dotted(node.func) == "s.params.get" and node.args and isinstance(node.args[0], ast.Constant):
            return ast.copy_location(ast.Name(id="param_" + str(node.args[0].value), ctx=ast.Load()), node)
        return node

    def visit_Subscript(self, node):
        self.generic_visit(node)
        if X.dotted(node.value) == "s.params" and isinstance(node.slice, ast.Constant):
            return ast.copy_location(ast.Name(id="param_" + str(node.slice.value), ctx=ast.Load()), node)
        return node


def pieces():
    """The bridge as a small state machine, located by role: the statements of rest_init that set attributes of s, the
    statements of rest_scheduler before the idle-tick early return, the extra conjuncts of that early return (beside
    `not pipelines` / `not results`), and the attribute updates made when a call goes ahead."""
    import copy
    tree = X.load(REST)
    init = _Params().visit(copy.deepcopy(X.func(tree, "rest_init")))
    f = _Params().visit(copy.deepcopy(X.func(tree, "rest_scheduler")))
    thr = None
    for k, n in enumerate(f.body):
        if isinstance(n, ast.If) and isinstance(n.test, ast.BoolOp) and isinstance(n.test.op, ast.And) and n.body and isinstance(n.body[0], ast.Return):
            srcs = [X.src(v) for v in n.test.values]
            if "not pipelines" in srcs and "not results" in srcs:
                thr = (k, n, [v for v in n.test.values if X.src(v) not in ("not pipelines", "not results")])
    if thr is None:
        raise X.NotFound("idle-tick early return (not pipelines and not results and ...) in rest_scheduler")
    k, n, conj = thr
    if not conj:
        raise X.NotFound("poll-interval condition in the idle-tick early return")
    init_set = [st for st in init.body if isinstance(st, (ast.Assign, ast.AnnAssign))]
    pre = [st for st in f.body[:k] if isinstance(st, (ast.Assign, ast.AugAssign))]
    post = [st for st in f.body[k + 1:] if isinstance(st, ast.Assign) and (X.dotted(st.targets[0]) or "").startswith("s.")]
    return init_set, pre, conj, post


def _run(stmts, env, tolerant):
    """Execute simple assignments symbolically; with tolerant=True statements the translator cannot express (sessions,
    timers, dictionaries) are skipped - their targets stay unknown, and a later use raises Unsupported."""
    for st in stmts:
        try:
            if isinstance(st, ast.AugAssign):
                t = X.dotted(st.target)
                op = {ast.Add: "+", ast.Sub: "-", ast.Mult: "*", ast.Div: "/"}[type(st.op)]
                env.names[t] = env.dom.arith(op, env.names[t], A.ev(st.value, env))
            else:
                tgt = st.targets[0] if isinstance(st, ast.Assign) else st.target
                if st.value is None:
                    continue
                t = X.dotted(tgt)
                if t is None:
                    continue
                env.names[t] = A.ev(st.value, env)
        except (A.Unsupported, KeyError, X.NotFound):
            if not tolerant:
                raise


def poll_rule(tier="quick"):
    """On a tick without arrivals and results the bridge calls the external scheduler only if at least one
    poll interval of simulated time has passed since the last call (up to float rounding of the simulated
    times), and it does call once more than an interval has passed."""
    res = Result()
    init_set, pre, conj, post = pieces()
    res.encoded += ["rest_init: " + "; ".join(X.src(st) for st in init_set if "poll" in X.src(st) or "last_call" in X.src(st) or "current_tick" in X.src(st)),
                    "rest_scheduler before the early return: " + "; ".join(X.src(st) for st in pre),
                    "skip if " + " and ".join(X.src(c) for c in conj),
                    "on a call: " + "; ".join(X.src(st) for st in post)]
    dom = A.RLX()
    cur, last, tps, poll = dom.int_var("cur"), dom.int_var("last"), dom.int_var("tps"), dom.float_var("poll")
    base = {"param_ticks_per_second": tps, "param_rest_poll_interval": poll}
    env0 = A.Env(dom, dict(base))
    _run(init_set, env0, tolerant=True)
    # the call at tick `last` (forced by an arrival): statements before the early return, then the updates of a call
    envL = A.Env(dom, dict(env0.names))
    envL.names["s.current_tick"] = V_int(dom, last.t - 1)
    _run(pre, envL, tolerant=True)
    _run(post, envL, tolerant=True)
    state = {k: v for k, v in envL.names.items() if k.startswith("s.") or k in base}
    # idle ticks in between only advance the tick counter (checked: no other attribute is written before the early return)
    for st in pre:
        t = X.dotted(st.target if isinstance(st, ast.AugAssign) else st.targets[0]) or ""
        if t.startswith("s.") and t != "s.current_tick":
            return res.out("inconclusive", f"cannot encode current source: {t} is written on skipped ticks")
    env = A.Env(dom, dict(state))
    env.names["s.current_tick"] = V_int(dom, cur.t - 1)
    _run(pre, env, tolerant=True)
    parts = [A.ev(c, env) for c in conj]
    skip = parts[0] if len(parts) == 1 else dom.b_and(parts)
    T = z3.ToReal(tps.t)
    exact = (z3.ToReal(cur.t) - z3.ToReal(last.t)) / T
    slack = Q(4 * Fraction(1, 2 ** 53)) * z3.ToReal(cur.t) / T
    rng = [tps.t >= 1, tps.t <= MAXTPS, last.t >= 0, cur.t > last.t, cur.t <= 10 ** 7, poll.t >= 0, poll.t <= 10 ** 4]
    r0, _ = solve(res, dom.side + rng, 30000)
    if r0 != "sat":
        return res.out("inconclusive", f"vacuity check {r0}")
    # early idle call: not skipped although clearly less than an interval has passed
    r1, m1 = solve(res, dom.side + rng + [z3.Not(skip.t), exact < poll.t - slack], 60000)
    # missing idle call: skipped although clearly more than an interval has passed
    r2, m2 = solve(res, dom.side + rng + [skip.t, exact > poll.t + slack], 60000)
    if r1 == "unsat" and r2 == "unsat":
        return res.out("discharged", "idle calls happen iff a poll interval of simulated time has passed (up to rounding of the simulated times): "
                                     "RLX unsat for ticks <= 1e7, tps in [1,1e5], poll in [0,1e4]")
    # small witnesses replay quickly: ask again inside a small box
    small = [cur.t <= 400, tps.t <= 20]
    # (with a 10 % margin so that the witness does not sit on a rounding edge)
    for idx, extra in enumerate(([z3.Not(skip.t), exact < poll.t * Q(Fraction(9, 10)) - slack, last.t >= 1],
                                 [skip.t, exact > poll.t * Q(Fraction(11, 10)) + slack, last.t >= 1])):
        rs, ms = solve(res, dom.side + rng + small + extra, 30000)
        if rs == "sat":
            if idx == 0:
                r1, m1 = rs, ms
            else:
                r2, m2 = rs, ms
    for r, m in ((r1, m1), (r2, m2)):
        if r == "sat":
            args = dict(cur=int(A.real_to_fraction(m, cur.t)), last=int(A.real_to_fraction(m, last.t)), tps=int(A.real_to_fraction(m, tps.t)),
                        poll=float(A.real_to_fraction(m, poll.t)))
            rep = replay_poll(**args)
            if rep:
                return res.out("violated", rep, {"replay": {"kind": "kn", "func": "vf.kernels.c19:replay_poll", "args": args}})
    # the solver's witness may sit on a rounding edge of the (changed) test: try the neighbourhood it points at
    for tp in (1, 2, 10):
        for pt in (2, 5, 8):
            args = dict(cur=2 + 3 * pt, last=2, tps=tp, poll=pt / tp)
            rep = replay_poll(**args)
            if rep:
                return res.out("violated", rep, {"replay": {"kind": "kn", "func": "vf.kernels.c19:replay_poll", "args": args}})
    return res.out("inconclusive", f"RLX {r1}/{r2}; candidates do not reproduce")


def replay_poll(cur, last, tps, poll):
    """Real rest_scheduler with a stub server: last call at tick `last` (forced by an arrival), then idle ticks."""
    if cur > 200000:
        return ""
    import_repo()
    import eudoxia.scheduler.rest as rest_mod
    from eudoxia.scheduler import Scheduler
    from eudoxia.executor import Executor
    from eudoxia.workload.pipeline import Pipeline, Segment
    from eudoxia.utils import Priority
    calls = []

    class Resp:
        def raise_for_status(self):
            pass

        def json(self):
            return {"suspensions": [], "assignments": []}

    class Srv:
        def post(self, url, json=None):
            if url.endswith("/schedule"):
                calls.append(json["tick"])
            return Resp()
    real = rest_mod.requests
    rest_mod.requests = Srv()
    try:
        params = dict(scheduler_algo="rest", num_pools=1, cpus_per_pool=1, ram_gb_per_pool=1, ticks_per_second=tps, multi_operator_containers=True,
                      allow_memory_overcommit=False, duration=(cur + 2) / tps, rest_poll_interval=poll, rest_scheduler_addr="x")
        ex = Executor(**params)
        sch = Scheduler(ex, **params)
        p = Pipeline("p", Priority.QUERY)
        p.new_operator().add_segment(Segment(baseline_cpu_seconds=1.0))
        for t in range(1, cur + 1):
            sch.run_one_tick([], [p] if t == last else [])
        # every idle tick after the forced call is judged against the rule
        prev = last if last in calls else 0
        for t in range(last + 1, cur + 1):
            exact = Fraction(t - prev, tps)
            slack = 4 * Fraction(1, 2 ** 53) * Fraction(t, tps)
            if t in calls:
                if exact < Fraction(poll) - slack:
                    return f"C19:idle_call_before_poll_interval tick={t} previous_call={prev} tps={tps} poll={poll!r}"
                prev = t
            elif exact > Fraction(poll) + slack:
                return f"C19:no_idle_call_after_poll_interval tick={t} previous_call={prev} tps={tps} poll={poll!r}"
        return ""
    finally:
        rest_mod.requests = real
