"""CrossHair plugin used by every Engine-A run (see DESIGN.md section 2/5).

M1: `float` is modelled by RealBasedSymbolicFloat only (no IEEE fork).
M2: f-string formatting on `logger.<level>(...)` statements of <repo>/eudoxia is a
    no-op (the formatted text is never observable by the properties, and formatting
    a symbolic number would realise it, one path per concrete value).

The set of logging lines is recomputed from the current source with `ast` each
time the plugin is loaded.
"""
import ast
import os
import sys

REPO = os.environ.get("EUDOXIA_REPO", "/repo")


def _logger_lines(repo):
    lines = set()
    root = os.path.join(repo, "eudoxia")
    for dirpath, _dirs, files in os.walk(root):
        for fn in files:
            if not fn.endswith(".py"):
                continue
            path = os.path.join(dirpath, fn)
            try:
                tree = ast.parse(open(path).read())
            except SyntaxError:
                continue
            for node in ast.walk(tree):
                if not isinstance(node, ast.Expr):
                    continue
                call = node.value
                if not isinstance(call, ast.Call):
                    continue
                f = call.func
                if (isinstance(f, ast.Attribute) and isinstance(f.value, ast.Name)
                        and f.value.id in ("logger", "logging")
                        and f.attr in ("debug", "info", "warning", "error", "critical")):
                    for ln in range(node.lineno, (node.end_lineno or node.lineno) + 1):
                        lines.add((os.path.realpath(path), ln))
    return lines


LOGGER_LINES = _logger_lines(REPO)
_REAL = {}


def _realpath(p):
    r = _REAL.get(p)
    if r is None:
        r = _REAL[p] = os.path.realpath(p)
    return r


def install():
    import crosshair.libimpl.builtinslib as bl
    import crosshair.opcode_intercept as oi
    from crosshair.tracers import frame_stack_write
    frame_op_arg = oi.frame_op_arg

    bl._PYTYPE_TO_WRAPPER_TYPE[float] = ((bl.RealBasedSymbolicFloat, 1.0),)

    orig = oi.FormatValueInterceptor.trace_op

    def trace_op(self, frame, codeobj, codenum):
        code = frame.f_code
        if (_realpath(code.co_filename), frame.f_lineno) in LOGGER_LINES:
            flags = frame_op_arg(frame)
            if flags == 0x04:
                frame_stack_write(frame, -1, "")
                frame_stack_write(frame, -2, "")
            else:
                frame_stack_write(frame, -1, "")
            return
        return orig(self, frame, codeobj, codenum)

    oi.FormatValueInterceptor.trace_op = trace_op

    # Never "short-circuit" (replace by a fresh symbolic return value) calls into
    # contracted library functions such as hash(): calling into the real function is
    # always exact, and the extra parallel forks multiply the path count (406 paths
    # instead of 64 for the 4-node DAG harness).
    import crosshair.core as core
    orig_cs = core.consider_shortcircuit

    def consider_shortcircuit(fn, sig, bound, subconditions, allow_interpretation):
        if allow_interpretation:
            return None
        return orig_cs(fn, sig, bound, subconditions, allow_interpretation)

    core.consider_shortcircuit = consider_shortcircuit

    # fork_parallel() marks heuristic alternatives that are semantically equivalent
    # (short-circuit vs call-into, "premature realisation" of an argument vs keeping it
    # symbolic).  Always take the exact/symbolic alternative: no extra tree nodes, and the
    # number of paths equals the number of distinct symbolic behaviours.
    import crosshair.statespace as ss
    ss.StateSpace.fork_parallel = lambda self, false_probability, desc="": False

    # CrossHair caps the verdict of every path that creates a real-valued float at UNKNOWN (real
    # arithmetic is not IEEE arithmetic).  M1 accepts real semantics on domains where the two
    # coincide, so the cap is removed: "Confirmed over all paths" then means every path confirmed
    # under M1 (and every counterexample is replayed with true floats anyway).
    ss.StateSpace.cap_result_at_unknown = lambda self: None

    # int(<symbolic float>) : CrossHair's builtin patch realises the float (one path per concrete
    # value); under M1 (real-valued floats) truncation is expressible symbolically, which is what
    # RealBasedSymbolicFloat.__int__ already does.
    from crosshair.tracers import NoTracing
    orig_int = core._PATCH_REGISTRATIONS.get(int)
    if orig_int is not None:
        from crosshair.util import CrossHairValue

        def _int(*a, **kw):
            with NoTracing():
                is_real = len(a) == 1 and not kw and type(a[0]) is bl.RealBasedSymbolicFloat
                if not is_real and not any(isinstance(x, CrossHairValue) for x in a) \
                        and not any(isinstance(x, CrossHairValue) for x in kw.values()):
                    return int(*a, **kw)        # concrete arguments: the real builtin
            if is_real:
                return a[0].__int__()
            return orig_int(*a, **kw)
        core._PATCH_REGISTRATIONS[int] = _int


install()
