"""Orchestrates one property check:  python -m vf.run <ID> quick|thorough
                                    python -m vf.run replay <file>
Exit 0: property held on everything explored (inconclusive obligations are listed,
never counted as discharged); 1: reproduced, unlisted violation; 3: machinery error."""
import concurrent.futures as cf
import hashlib
import importlib
import json
import os
import random
import shutil
import subprocess
import sys
import tempfile
import time

VERIF = os.environ.get("VERIF_ROOT", os.path.dirname(os.path.dirname(os.path.abspath(__file__))))
if VERIF not in sys.path:
    sys.path.insert(0, VERIF)
os.environ["VERIF_ROOT"] = VERIF

from vf import chrun  # noqa: E402
from vf.ob import CH, KN  # noqa: E402

PY = chrun.PY
REPO = os.environ.get("EUDOXIA_REPO", "/repo")
NPROC = int(os.environ.get("VERIF_JOBS", str(min(16, os.cpu_count() or 4))))


_NOKEY = object()


def load_known(pid):
    path = os.path.join(VERIF, "known_findings.json")
    if not os.path.exists(path):
        return [], []
    data = json.load(open(path))
    findings = [f for f in data.get("findings", []) if f.get("property") == pid]
    fixed = [f for f in data.get("fixed", []) if f.get("property") == pid]
    return findings, fixed


def box_point(ob, mode, rnd):
    """A concrete point of the symbolic box of a CH obligation: lo / hi / mid corner or a seeded pick."""
    d = {}
    for a, sp in ob.sym.items():
        if sp[0] == "bool":
            d[a] = {"lo": False, "hi": True, "mid": True}.get(mode, rnd.random() < 0.5)
        elif sp[0] == "int":
            d[a] = {"lo": sp[1], "hi": sp[2], "mid": (sp[1] + sp[2]) // 2}.get(mode, rnd.randint(sp[1], sp[2]))
        else:
            d[a] = {"lo": sp[1], "hi": sp[2], "mid": (sp[1] + sp[2]) / 2}.get(mode, rnd.uniform(sp[1], sp[2]))
    return d


def native_replay(spec, timeout=300):
    """Run a replay spec natively in a fresh process; returns the result string
    ('' = property held), or None on machinery failure."""
    fd, path = tempfile.mkstemp(suffix=".json", prefix="vrep_")
    os.close(fd)
    try:
        json.dump(spec, open(path, "w"))
        e = dict(os.environ)
        e["VERIF_ROOT"] = VERIF
        p = subprocess.run([PY, "-m", "vf.replay", path], capture_output=True, text=True,
                           timeout=timeout, cwd=VERIF, env=e)
        for ln in p.stdout.split("\n"):
            if ln.startswith('{"result"'):
                return json.loads(ln)["result"]
        sys.stderr.write(f"replay machinery failure: rc={p.returncode}\n{p.stdout[-400:]}\n{p.stderr[-800:]}\n")
        return None
    except subprocess.TimeoutExpired:
        return None
    finally:
        os.unlink(path)


def finding_applies(f, ob):
    if ob.kind == "kn":
        if f.get("harness") != ob.func:
            return False
        for k, v in (f.get("partition") or {}).items():
            if ob.args.get(k, v) != v:
                return False
        return True
    if f.get("harness") != ob.harness:
        return False
    for k, v in (f.get("partition") or {}).items():
        cur = ob.fixed
        for part in k.split("."):            # "cfg.algo" looks inside the scenario configuration
            cur = cur.get(part, _NOKEY) if isinstance(cur, dict) else _NOKEY
        if cur is _NOKEY or cur != v:
            return False
    return True


def run_kn(ob):
    t0 = time.time()
    e = dict(os.environ)
    e["VERIF_ROOT"] = VERIF
    try:
        p = subprocess.run([PY, "-m", "vf.krun", ob.func, json.dumps(ob.args)],
                           capture_output=True, text=True, timeout=ob.timeout, cwd=VERIF, env=e)
        res = None
        for ln in p.stdout.split("\n"):
            if ln.startswith('{"status"'):
                res = json.loads(ln)
        if res is None:
            res = {"status": "crash", "detail": f"rc={p.returncode} " + p.stderr[-800:]}
    except subprocess.TimeoutExpired:
        res = {"status": "inconclusive", "detail": f"obligation process exceeded {ob.timeout}s wall"}
    res["wall_s"] = round(time.time() - t0, 2)
    return res


def main(argv):
    if len(argv) >= 3 and argv[1] == "replay":
        from vf import replay
        return replay.main(["replay", argv[2]])
    pid = argv[1].upper()
    tier = argv[2] if len(argv) > 2 else os.environ.get("VERIF_TIER", "quick")
    seed = int(os.environ.get("VERIF_SEED", "0") or 0)
    t_start = time.time()
    mod = importlib.import_module(f"vf.props.{pid.lower()}")
    spec = mod.spec(tier)
    findings, fixed_entries = load_known(pid)
    only = os.environ.get("VERIF_ONLY")
    if only:
        import re as _re
        spec.obligations = [o for o in spec.obligations if _re.search(only, o.name)]

    # ---- known findings: replay their stored inputs first -------------------
    live_findings = []
    for f in findings:
        res = native_replay(f["replay"])
        if res is None:
            print(f"MACHINERY-ERROR: cannot replay known finding {f.get('id')}")
            return 3
        if res and res.startswith(f["reason_prefix"]):
            print(f"KNOWN-FINDING: property={pid} {f['what']}")
            live_findings.append(f)
        else:
            print(f"note: listed finding {f.get('id')} no longer reproduces (result={res!r}); it suppresses nothing")

    ch_obs = [o for o in spec.obligations if o.kind == "ch"]
    kn_obs = [o for o in spec.obligations if o.kind == "kn"]
    known_prefixes = {}
    for ob in ch_obs:
        pf = [f["reason_prefix"] for f in live_findings if finding_applies(f, ob)]
        if pf and ob.expect == "confirm":
            known_prefixes[ob.name] = pf

    tmp = tempfile.mkdtemp(prefix=f"verif_{pid}_")
    results = {}
    total_paths = 0
    solver_cpu = 0.0
    try:
        # group CH obligations into modules
        groups = {}
        for ob in ch_obs:
            key = ob.group or ("solo:" + ob.name)
            groups.setdefault(key, []).append(ob)
        jobs = []
        for gi, (key, obs) in enumerate(groups.items()):
            src, _ = chrun.contract_source(obs, known_prefixes)
            path = os.path.join(tmp, f"m{gi}.py")
            open(path, "w").write(src)
            jobs.append(("ch", path, obs))
        for ob in kn_obs:
            jobs.append(("kn", None, [ob]))
        rnd = random.Random(seed)
        rnd.shuffle(jobs)
        jobs.sort(key=lambda j: -sum(o.timeout for o in j[2]))

        def do(job):
            kind, path, obs = job
            if kind == "ch":
                tmo = max(o.timeout for o in obs)
                ppt = obs[0].per_path_timeout
                return job, chrun.run_module(path, obs, tmo, ppt)
            return job, run_kn(obs[0])

        with cf.ThreadPoolExecutor(max_workers=NPROC) as ex:
            for job, out in ex.map(do, jobs):
                kind, path, obs = job
                if kind == "ch":
                    res, paths, wall = out
                    total_paths += paths
                    solver_cpu += wall
                    per = paths // max(1, len(obs))
                    for ob in obs:
                        r = res[ob.name]
                        r["wall_s"] = round(wall, 2)
                        r["paths"] = paths if len(obs) == 1 else per
                        results[ob.name] = r
                else:
                    results[obs[0].name] = out
                    solver_cpu += out.get("solver_s", 0.0)
    finally:
        shutil.rmtree(tmp, ignore_errors=True)

    # ---- native points (hash-order effects are invisible under CrossHair) ---------
    native_runs = 0
    native_viol = []
    for ob in ch_obs:
        if not getattr(ob, "native_points", 0) or ob.expect != "confirm":
            continue
        rnd2 = random.Random(seed * 7919 + len(ob.name))
        pts = []
        names = list(ob.sym)

        def pick(mode):
            d = {}
            for a in names:
                sp = ob.sym[a]
                if sp[0] == "bool":
                    d[a] = {"lo": False, "hi": True, "mid": True}.get(mode, rnd2.random() < 0.5)
                elif sp[0] == "int":
                    d[a] = {"lo": sp[1], "hi": sp[2], "mid": (sp[1] + sp[2]) // 2}.get(mode, rnd2.randint(sp[1], sp[2]))
                else:
                    d[a] = {"lo": sp[1], "hi": sp[2], "mid": (sp[1] + sp[2]) / 2}.get(mode, rnd2.uniform(sp[1], sp[2]))
            return d
        for mode in ["lo", "hi", "mid"] + ["rnd"] * max(0, ob.native_points - 3):
            pts.append({**pick(mode), **ob.fixed})
        res_n = native_replay({"property": pid, "kind": "points", "harness": ob.harness, "args_list": pts}, timeout=600)
        native_runs += len(pts)
        if res_n is None:
            machinery_pre = f"{ob.name}: native points failed to run"
            print("MACHINERY-ERROR:", machinery_pre)
        elif res_n:
            native_viol.append((ob, res_n))
    # ---- interpret ------------------------------------------------------------
    violations = []
    machinery = []
    inconclusive = []
    known_hits = []
    discharged = 0
    nontrivial = 0
    smt_queries = 0
    samples = []
    n_oblig = 0
    for ob in spec.obligations:
        r = results.get(ob.name, {"status": "crash"})
        st = r.get("status")
        if ob.kind == "kn":
            n_oblig += 1
            smt_queries += int(r.get("queries", 0))
            if st == "discharged":
                discharged += 1
                nontrivial += 1
            elif st == "violated":
                w = r.get("witness") or {}
                rs = w.get("replay")
                rep = native_replay(rs) if rs else None
                tol = [f for f in live_findings if finding_applies(f, ob)]
                if rep and any(rep.startswith(f["reason_prefix"]) for f in tol):
                    known_hits.append(f"{ob.name}: {rep[:160]}")
                elif rep:
                    violations.append((ob, rs, rep, r))
                else:
                    machinery.append(f"{ob.name}: solver witness does not reproduce natively ({w})")
            elif st == "crash":
                machinery.append(f"{ob.name}: {r.get('detail')}")
            else:
                inconclusive.append(f"{ob.name}: {r.get('detail', st)}")
            if sum(1 for x in samples if x["engine"] == "B") < 4:
                samples.append({"obligation": ob.name, "engine": "B", "args": ob.args, "status": st,
                                "detail": str(r.get("detail"))[:400], "encoded_from_source": r.get("encoded"),
                                "notes": r.get("notes"), "queries": r.get("queries"), "solver_s": r.get("solver_s")})
            continue
        # CrossHair conditions
        if ob.expect == "violate":
            # reachability twin
            if st == "counterexample" and (r.get("returns") or "").strip("'\"") == "REACHED":
                nontrivial += 1
            elif st == "confirmed":
                machinery.append(f"{ob.name}: reachability twin confirmed => harness vacuous for this branch")
            elif st == "crash":
                machinery.append(f"{ob.name}: {r.get('raw')}")
            else:
                inconclusive.append(f"{ob.name}: twin {st} {r.get('message', '')[:200]}")
            continue
        n_oblig += 1
        if st == "confirmed":
            discharged += 1
            if ob.name in known_prefixes:
                known_hits.append(f"{ob.name}: confirmed modulo known finding {known_prefixes[ob.name]} (paths that reach it end there)")
        elif st == "counterexample":
            args = dict(r.get("args") or {})
            rs = {"property": pid, "kind": "ch", "harness": ob.harness,
                  "args": {**args, **ob.fixed}, "obligation": ob.name,
                  "crosshair_message": r.get("message")}
            rep = native_replay(rs) if "args" in r else None
            if rep is None and "args" not in r and not ob.pre:
                # a counterexample that cannot be replayed as it stands: CrossHair saw different executions for the same
                # decisions (NotDeterministic: the code under test keeps class-level / module-level state from one execution
                # to the next) or it steered a library call it models itself (e.g. `random`, shown as patch_to_return(...)).
                # That is not a verdict; the harness is run
                # natively, in one process, on several points of the symbolic box one after the other - a reason code from
                # a real run is reported, otherwise the obligation stays a machinery error.
                res_nd = native_replay({"property": pid, "kind": "points", "harness": ob.harness,
                                        "args_list": [{**box_point(ob, m, random.Random(seed + k)), **ob.fixed}
                                                      for k, m in enumerate(["lo", "hi", "mid", "rnd", "rnd", "rnd", "lo", "hi"])]}, timeout=600)
                native_runs += 8
                if res_nd and not any(res_nd["result"].startswith(pf) for pf in known_prefixes.get(ob.name, [])):
                    rs2 = {"property": pid, "kind": "points", "harness": ob.harness, "obligation": ob.name,
                           "args_list": [{**box_point(ob, m, random.Random(seed + k)), **ob.fixed}
                                         for k, m in enumerate(["lo", "hi", "mid", "rnd", "rnd", "rnd", "lo", "hi"])],
                           "found_by": "native runs of the harness on points of the symbolic box, one after the other in one process, "
                                       "after CrossHair gave a counterexample that cannot be replayed as it stands: " + str(r.get("message"))[:200]}
                    violations.append((ob, rs2, res_nd["result"] + " [native runs on box points, one process]", r))
                else:
                    machinery.append(f"{ob.name}: CrossHair: {r.get('message')} (native points in one process: no violation)")
            elif rep is None and "args" not in r:
                machinery.append(f"{ob.name}: cannot parse counterexample: {r.get('message')}")
            elif rep is None:
                machinery.append(f"{ob.name}: replay failed to run")
            elif rep == "":
                machinery.append(f"SPURIOUS {ob.name}: CrossHair counterexample does not reproduce natively: {r.get('message')}")
            else:
                tolerated = any(rep.startswith(pf) for pf in known_prefixes.get(ob.name, []))
                if tolerated:
                    # cannot happen (post tolerates it) but stay safe
                    inconclusive.append(f"{ob.name}: stopped at known finding")
                else:
                    violations.append((ob, rs, rep, r))
        elif st == "crash":
            machinery.append(f"{ob.name}: {r.get('raw')}")
        else:
            inconclusive.append(f"{ob.name}: {st} after {r.get('wall_s')}s/{r.get('paths')} paths")
        if sum(1 for x in samples if x["engine"] == "A") < 4:
            samples.append({"obligation": ob.name, "engine": "A", "harness": ob.harness,
                            "symbolic": {k: list(v) for k, v in ob.sym.items()}, "fixed": ob.fixed,
                            "status": st, "paths": r.get("paths"), "cpu_s": r.get("wall_s")})

    if os.environ.get("VERIF_VERBOSE"):
        for ob in spec.obligations:
            r = results.get(ob.name, {})
            print(f"  [{ob.name}] {r.get('status')} paths={r.get('paths')} cpu={r.get('wall_s')}s {str(r.get('detail',''))[:200]}")
    for ob, res_n in native_viol:
        rs = {"property": pid, "kind": "ch", "harness": ob.harness, "args": res_n["failing_args"], "obligation": ob.name,
              "found_by": "native run on a concrete point of the symbolic box"}
        if not any(res_n["result"].startswith(pf) for pf in known_prefixes.get(ob.name, [])):
            violations.append((ob, rs, res_n["result"], {}))
    # ---- report ---------------------------------------------------------------
    rc = 0
    seen_v = set()
    for ob, rs, rep, r in violations:
        key = (ob.harness if ob.kind == "ch" else ob.func, rep.split("@")[0] if isinstance(rep, str) else str(rep))
        h = hashlib.sha1(json.dumps(rs, sort_keys=True, default=str).encode()).hexdigest()[:12]
        d = os.path.join(VERIF, "replays", pid)
        os.makedirs(d, exist_ok=True)
        path = os.path.join(d, f"{h}.json")
        rs = dict(rs)
        rs["property"] = pid
        rs["native_result"] = rep
        json.dump(rs, open(path, "w"), indent=1, default=str)
        if key in seen_v and len(seen_v) > 8:
            continue
        seen_v.add(key)
        print(f"violation detail: obligation={ob.name} result={rep!r}")
        print(f"VIOLATION property={pid} replay={path}")
        rc = 1
    for m in machinery:
        print(f"MACHINERY-ERROR: {m}")
    for m in inconclusive:
        print(f"INCONCLUSIVE: {m}")
    if machinery and rc == 0:
        rc = 3

    wall = time.time() - t_start
    ev = {
        "property_id": pid, "tier": tier, "seed": seed, "level": "other",
        "coverage": {
            "explanation": spec.explanation,
            "evaluations": int(total_paths + smt_queries),
            "distinct_nontrivial": int(discharged + nontrivial),
            "rule": ("evaluations = execution paths completed by CrossHair (each path stands for all inputs that take it; "
                     "feasibility of every branch decided by z3) + SMT queries issued by the kernel obligations; a case is one "
                     "obligation (one CrossHair condition over a symbolic input box for one concrete partition, or one kernel "
                     "query); distinct_nontrivial = obligations discharged + reachability twins whose target branch was shown reachable"),
            "obligations": n_oblig, "discharged": discharged, "native_point_runs": native_runs,
            "inconclusive": inconclusive, "paths": total_paths, "smt_queries": smt_queries,
            "reachability_twins_fired": nontrivial if not kn_obs else None,
            "functions_encoded": spec.functions, "bounds": spec.bounds, "outside_claim": spec.outside,
            "solver_cpu_s": round(solver_cpu, 1), "samples": samples,
            "checker_cmd": f"./vcheck {pid} {tier}",
            "known_findings_reported": [f.get("id") for f in live_findings],
            "obligations_stopped_at_known_finding": known_hits,
            "repo": REPO,
        },
        "assumptions": spec.assumptions,
        "wall_s": round(wall, 2),
        "violations": len(violations),
    }
    # (VERIF_EVIDENCE_DIR: runs against scratch worktrees with seeded changes write their evidence elsewhere)
    ev_dir = os.environ.get("VERIF_EVIDENCE_DIR") or os.path.join(VERIF, "evidence")
    os.makedirs(ev_dir, exist_ok=True)
    json.dump(ev, open(os.path.join(ev_dir, f"{pid}.json"), "w"), indent=1, default=str)
    print(f"{pid} {tier}: obligations={n_oblig} discharged={discharged} inconclusive={len(inconclusive)} "
          f"violations={len(violations)} paths={total_paths} smt_queries={smt_queries} wall={wall:.0f}s exit={rc}")
    return rc


if __name__ == "__main__":
    sys.exit(main(sys.argv))
