from vf.props.common import *


def spec(tier):
    th = tier == "thorough"
    obs = []
    for tps in (1, 2, 4):
        for n in ((2, 3, 4) if th else (2, 4)):
            sym = {f"a{i}": I(0, 9 if th else 5) for i in range(n)}
            sym["R"] = I(0, 10 if th else 6)
            fixed = dict(tps=tps, n=n)
            for i in range(n, 4):
                fixed[f"a{i}"] = 0
            obs.append(CH(name=f"protocol_tps{tps}_n{n}", harness="c14.trace_protocol", sym=sym, fixed=fixed, timeout=900))
    # pipeline ids that repeat inside one trace (non-adjacent pipelines carrying the same label)
    for tps in ((1, 2, 4) if th else (1,)):
        sym = {f"a{i}": I(0, 5) for i in range(4)}
        sym["R"] = I(0, 6)
        obs.append(CH(name=f"protocol_repeated_ids_tps{tps}", harness="c14.trace_protocol", sym=sym, fixed=dict(tps=tps, n=4, dup_ids=True), timeout=900))
    # a replay after another replay in the same process that stopped before its trace was exhausted
    for tps in ((1, 2, 4) if th else (2,)):
        obs.append(CH(name=f"protocol_after_other_trace_tps{tps}", harness="c14.trace_protocol",
                      sym=dict(a0=I(0, 5), a1=I(0, 5), R=I(0, 6), pa=I(0, 5), pr=I(0, 5)), fixed=dict(tps=tps, n=2, a2=0, a3=0), timeout=900))
    obs.append(twin("protocol_same_tick", "c14.trace_protocol", dict(a0=I(0, 7), a1=I(0, 7), R=I(0, 8)), dict(tps=2, n=2, a2=0, a3=0), "same_tick"))
    obs.append(twin("protocol_after_end", "c14.trace_protocol", dict(a0=I(0, 7), a1=I(0, 7), R=I(0, 8)), dict(tps=2, n=2, a2=0, a3=0), "after_end"))
    # gentrace round trip at exact tick rates (the generator's own numpy stream, several seeds)
    for tps in (1, 2, 4, 128, 1024):
        for seed in ((1, 2, 3, 42) if th else (1, 42)):
            obs.append(CH(name=f"gentrace_tps{tps}_seed{seed}", harness="c14.gentrace_roundtrip", sym={}, fixed=dict(tps=tps, seed=seed, wmean=1.5 if tps <= 4 else 24.0 / tps, K=24 if tps <= 4 else 400),
                          timeout=120, group=f"gentrace{tps}"))
    obs.append(KN(name="mapping_bounds", func="vf.kernels.c13:bounds", args=dict(tier=tier), timeout=600))
    obs.append(KN(name="grouping", func="vf.kernels.c13:grouping", args=dict(tier=tier), timeout=600))
    for kind in ("decimal", "gentrace"):
        for rk in ("dyadic", "nondyadic"):
            obs.append(KN(name=f"on_grid_{kind}_{rk}", func="vf.kernels.c13:on_grid", args=dict(kind=kind, tier=tier, rates_kind=rk),
                          timeout=3600 if th else 1200))
    return PropSpec(
        property_id="C13", obligations=obs,
        functions=["WorkloadTrace.__init__", "WorkloadTrace.get_next_batch_tick", "WorkloadTrace.run_one_tick", "WorkloadTrace.advance_to_next_batch",
                   "CSVWorkloadReader.batch_by_arrival", "WorkloadTraceGenerator.generate_rows", "CSVWorkloadWriter.write_row"],
        bounds={"protocol": "<= 4 pipelines, arrival ticks 0..7, run length 0..8 ticks, tick rates 1, 2, 4 (seconds values exact)",
                "kernel": "arrival*tps in [0,1e7], tps in [1,1e5] (RLX); k in [0,2e6] at listed rates (FPX)"},
        outside=["traces whose rows are not in arrival order (the property assumes arrival order)", "arrival ticks beyond 1e7"],
        assumptions=A_ASSUME + ["M10 RLX error model; FPX bit-exact with Python ints as 64-bit vectors (ranges asserted)"],
        explanation=("Engine A: CrossHair+z3 over the real CSVWorkloadReader.batch_by_arrival + WorkloadTrace with symbolic arrival ticks and run length at exact tick rates: each pipeline "
                     "once, in the tick of its arrival, file order kept, nothing after the end.  Engine B: the seconds->tick comparison extracted from the source: never early / never "
                     "later than the rounding zone / monotone for all rates (RLX); arrivals exactly on a tick boundary (decimal k/tps and the value gentrace writes) delivered in tick k "
                     "(bit-exact FPX per rate; the current tree fails this for non-dyadic rates: known findings C13-F1/F2)."))
