from vf.props.common import *


def spec(tier):
    th = tier == "thorough"
    obs = []
    for tps in (1, 2):
        for poll in (0, 1, 3, 100):
            for (s1, s2) in ((False, False), (True, False)) + (((False, True),) if th else ()):
                if not th and tps == 2 and poll in (0, 100):
                    continue
                sym = dict(c0=I(0, 2), c1=I(0, 2), c2=I(0, 2), c3=I(0, 2), k0=I(0, 1), d0=I(1, 2))
                fixed = dict(tps=tps, poll_ticks=poll, c4=1, k1=0, s1=s1, s2=s2, d1=1, pools=2, K=8)
                if not th:
                    sym.pop("c3")
                    fixed["c3"] = 2
                obs.append(CH(name=f"protocol_tps{tps}_poll{poll}_s{int(s1)}{int(s2)}", harness="c19.rest_protocol", sym=sym, fixed=fixed,
                              timeout=1500))
    # large allocations: the write-out of a suspended container lasts 2 (3) ticks, calls made meanwhile must show the pool as it is
    for (tps, al, poll) in ((1, 40, 0), (2, 30, 1)) + (((1, 40, 1), (2, 30, 0), (1, 40, 3)) if th else ()):
        obs.append(CH(name=f"protocol_writeout_tps{tps}_poll{poll}", harness="c19.rest_protocol", sym=dict(c0=I(0, 2), c1=I(0, 2), c2=I(0, 2), k0=I(0, 1), d0=I(1, 2)),
                      fixed=dict(tps=tps, poll_ticks=poll, c3=2, c4=1, k1=0, s1=True, s2=False, d1=2, pools=2, K=8, alloc=al), timeout=1500))
    tsym = dict(c0=I(0, 2), c1=I(0, 2), c2=I(0, 2), c3=I(0, 2), d0=I(1, 2))
    tfix = dict(tps=1, poll_ticks=1, c4=1, k0=0, k1=0, s1=True, s2=False, d1=2, pools=2, K=8)
    for w in ("assigned", "complete_reported", "idle_call", "idle_skip", "suspended", "inadmissible_decision"):
        obs.append(twin(f"rest_{w}", "c19.rest_protocol", tsym, dict(tfix, poll_ticks=3) if w == "idle_skip" else tfix, w, timeout=150))
    obs.append(KN(name="poll_rule", func="vf.kernels.c19:poll_rule", args=dict(tier=tier), timeout=300))
    return PropSpec(
        property_id="C19", obligations=obs,
        functions=["rest_init", "rest_scheduler", "_parse_assignments", "_parse_suspensions", "Pipeline.to_dict", "Operator.to_dict", "ResourcePool.to_dict",
                   "Container.to_dict", "ExecutionResult.to_dict", "Scheduler.__init__", "Executor.run_one_tick"],
        bounds={"ticks": 8, "pipelines": 2, "pools": 2, "poll_interval_ticks": "0, 1, 3, 100", "tick_rate": "1, 2", "external_decisions": "<= 1 assignment of any ready operator and <= 1 suspension per call, symbolic choice per call"},
        outside=["the Go reference implementation (go/naive, go/eudoxia/types.go): no Go tool-chain in the sandbox and no Go front end to an SMT encoding",
                 "sockets and the JSON wire encoding (the stub M5 replaces requests.post; the payload is checked to consist of JSON types only)",
                 "replies with several assignments per call"],
        assumptions=A_ASSUME + ["M10 RLX for the poll-interval arithmetic (all tick rates)", "M5 HTTP stub: requests.post replaced; replies are built from symbolic choices among the operators/containers offered in the request"],
        explanation=("CrossHair+z3 runs the real rest_init/rest_scheduler against a stub HTTP server whose decisions (which ready operator, which pool, whether to suspend) are symbolic; every "
                     "request is compared with the true state at that moment (results of the last tick, pool figures, operator states, no resource-need keys, new/other disjoint, a completed "
                     "pipeline reported exactly once), the call schedule is compared with the poll-interval rule, the returned Assignment/Suspend objects with the reply, and the whole run "
                     "with an in-process twin that makes the same decisions directly."))
