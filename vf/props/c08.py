from vf.props.common import *


def spec(tier):
    th = tier == "thorough"
    obs = []
    algos = [("naive", 1, False), ("naive", 3, False), ("priority", 1, False), ("priority", 2, False), ("priority-pool", 2, False),
             ("overbook", 1, True), ("overbook", 2, True), ("starter", 1, False), ("starter", 2, False)]
    workloads = {
        "dags": [pipe("diamond", prio=3, at=0, durs=[1, "da", 1, 1], mems=[1, "ma", 1, 1]), pipe("tworoots2", prio=1, at="ta", durs=[2, 1]),
                 pipe("fanout3", prio=2, at=1, durs=[1, 1, "db"], mems=[1, 1, "mb"])],
        "zero_ticks": [pipe("chain3", prio=3, at=0, durs=[0, "da", 0], mems=[1, "ma", 1]), pipe("single", prio=1, at="ta", durs=[0]),
                       pipe("chain2", prio=2, at=1, durs=["db", 0])],
        "too_big": [pipe("chain2", prio=3, at=0, durs=[1, 1], mems=[500, 1]), pipe("single", prio=1, at="ta", durs=[2], mems=[500]),
                    pipe("fanin3", prio=2, at=0, durs=[1, "da", 1], mems=[1, "ma", 1])],
    }
    for algo, pools, oc in algos:
        for multi in (True, False):
            if not th and not multi and (algo == "overbook" or (algo == "starter" and pools > 1)):
                continue        # these two build single-operator containers whatever the flag says (starter: checked on one pool)
            for wname, pp in workloads.items():
                if not th and pools > 1 and wname != "dags" and algo != "priority-pool":
                    continue
                if not th and not multi and algo == "starter" and wname != "dags":
                    continue
                for dur in ((14, 0.5, 3) if th else (12,)):
                    cfg = dict(algo=algo, pools=pools, oc=oc, multi=multi, duration=dur, pipes=pp)
                    nm = f"runs_{algo}_P{pools}_{'multi' if multi else 'single'}_{wname}_d{dur}"
                    if algo in ("priority", "priority-pool"):
                        for (clo, chi) in (((1, 9), (10, 20), (21, 40)) if th else ((1, 9), (10, 20))):
                            obs.append(CH(name=nm + f"_cpu{clo}", harness="rsim.runs_to_end", sym=dict(cpus=I(clo, chi), ma=I(1, 8), mb=I(1, 8), ta=I(0, 3)),
                                          fixed=dict(cfg=cfg, ram=25, da=2, db=1), timeout=1500))
                        obs.append(CH(name=nm + "_ram", harness="rsim.runs_to_end", sym=dict(ram=I(1, 80 if th else 40), ma=I(1, 8), ta=I(0, 3)),
                                      fixed=dict(cfg=cfg, cpus=3, da=1, db=2, mb=1), timeout=1500))
                    else:
                        obs.append(CH(name=nm, harness="rsim.runs_to_end",
                                      sym=dict(cpus=I(1, 40 if th else 20), ram=I(1, 80 if th else 40), ma=I(1, 8), mb=I(1, 8), ta=I(0, 3), da=I(1, 2)),
                                      fixed=dict(cfg=cfg, db=1), timeout=1500))
    # deeper DAG shapes: a join whose parents differ in depth by two (0->1->2->3 plus 0->3), two independent chains, two roots with
    # a skip-level edge - packed into one container in the order the scheduler takes from the pipeline
    deep = [pipe("deepskip", prio=3, at=0, durs=[1, "da", 1, 1], mems=[1, "ma", 1, 1]), pipe("twochains", prio=2, at="ta", durs=[2, 1, 1, 1]),
            pipe("tworootskip", prio=1, at=1, durs=[1, 1, "db", 1], mems=[1, 1, "mb", 1])]
    for algo, pools, oc in (("naive", 1, False), ("priority", 1, False), ("priority-pool", 2, False), ("overbook", 1, True), ("starter", 1, False)):
        for multi in ((True, False) if algo in ("priority", "naive") and th else (True,)):
            cfg = dict(algo=algo, pools=pools, oc=oc, multi=multi, duration=14, pipes=deep)
            obs.append(CH(name=f"runs_{algo}_P{pools}_{'multi' if multi else 'single'}_deep_dags", harness="rsim.runs_to_end",
                          sym=dict(cpus=I(1, 12), ma=I(1, 8), mb=I(1, 8), ta=I(0, 3)), fixed=dict(cfg=cfg, ram=25, da=2, db=1), timeout=1500))
    # overbook: abandonment while sibling operators are queued and CPUs are scarce
    cfg2 = dict(algo="overbook", pools=2, oc=True, multi=False, duration=12,
                pipes=[pipe("single", prio=3, at=0, durs=[1], mems=["mb"]), pipe("fork4", prio=2, at="ta", durs=["da", 2, 2, 2], mems=[1, "ma", 1, 1])])
    for cv in (1, 2, 3):
        obs.append(CH(name=f"runs_overbook_abandon_fork_cpu{cv}", harness="rsim.runs_to_end",
                      sym=dict(ram=I(2, 8), ma=I(0, 9), mb=I(0, 9), ta=I(0, 3), da=I(1, 3)), fixed=dict(cfg=cfg2, db=1, cpus=cv), timeout=1200))
    # priority: a suspended job is resumed and further jobs are placed in the same round
    cfg3 = dict(algo="priority", pools=1, multi=True, duration=14,
                pipes=[pipe("chain2", prio=3, at=0, durs=[1, 3]), pipe("chain2", prio=2, at=0, durs=[1, 2]), pipe("single", prio=1, at="ta", durs=[2]),
                       pipe("single", prio=3, at="tb", durs=[2]), pipe("single", prio=2, at="tb", durs=[1])])
    for (lo, hi) in ((2, 12), (13, 45)):
        for (tlo, thi) in ((1, 3), (4, 6), (7, 8)):
            obs.append(CH(name=f"runs_priority_resume_then_place_ram{lo}_tb{tlo}", harness="rsim.runs_to_end",
                          sym=dict(cpus=I(1, 6), ram=I(lo, hi), ta=I(1, 3), tb=I(tlo, thi)), fixed=dict(cfg=cfg3, da=1, db=1, ma=1, mb=1), timeout=1500))
    # sub-GB pools and one CPU
    for algo, pools, oc in (("naive", 1, False), ("priority", 1, False), ("priority-pool", 2, False), ("overbook", 1, True), ("starter", 1, False)):
        for ramv in (0.25, 0.5):
            cfg = dict(algo=algo, pools=pools, oc=oc, multi=True, duration=8,
                       pipes=[pipe("chain2", prio=3, at=0, durs=[1, 1], mems=[0.125, 0.125]), pipe("single", prio=1, at=1, durs=[1], mems=[0.125])])
            obs.append(CH(name=f"subgb_{algo}_{ramv}", harness="rsim.runs_to_end", sym=dict(cpus=I(1, 3)), fixed=dict(cfg=cfg, ram=ramv),
                          timeout=300, group=f"subgb_{algo}"))
    cfg = dict(algo="priority", pools=1, multi=True, duration=12, pipes=workloads["dags"])
    tsym = dict(cpus=I(1, 20), ma=I(1, 8), ta=I(0, 3))
    for w in ("fail", "ok", "suspend"):
        obs.append(twin(f"runs_{w}", "rsim.runs_to_end", tsym, dict(cfg=cfg, ram=25, da=2, db=1, mb=1), w))
    obs.append(KN(name="prob_sum", func="vf.kernels.c08:prob_sum", args=dict(tier=tier), timeout=600))
    obs.append(KN(name="max_ticks", func="vf.kernels.c08:max_ticks", args=dict(tier=tier), timeout=300))
    return PropSpec(
        property_id="C08", obligations=obs,
        functions=["run_simulator", "naive_pipeline", "priority_scheduler", "priority_pool_scheduler", "overbook_scheduler", "SCHEDULER_TEMPLATE (eudoxia init)",
                   "ResourcePool.verify_valid_assignment", "ResourcePool.verify_valid_suspend", "Assignment.__init__", "PipelineRuntimeStatus.transition"],
        bounds={"pools": "1..3", "pipelines": 3, "ticks": "0..12", "cpus_per_pool": "1..20", "ram_gb_per_pool": "1..40 and 0.25/0.5", "tick_rate": "1 (scenario); 1..100000 (max_ticks kernel)",
                "duration": "> 0"},
        outside=["duration == 0 (throughput is a division by the duration)", "the rest scheduler (C19)", "tick rates above 1 in the scenario harness (rate arithmetic: kernels of C05/C10)",
                 "workloads with more than 3 pipelines"],
        assumptions=A_ASSUME + ["M10 RLX for the kernels"],
        explanation=("CrossHair+z3 runs the real run_simulator with each shipped scheduler (and the starter scheduler generated from SCHEDULER_TEMPLATE) on scripted well-formed workloads "
                     "(branching DAGs, operators that round to zero ticks, operators larger than any allocation, arrivals at symbolic ticks) with symbolic pool sizes and memory "
                     "demands; no exception may escape and the run must reach its last tick.  Kernels: the probability-sum validation accepts exactly the triples that sum to one "
                     "(RLX), max_ticks = floor(duration*tps) (RLX)."))
