from vf.props.common import *


def spec(tier):
    th = tier == "thorough"
    obs = []
    K = 14 if th else 10
    shapes = [("chain3", "single", "chain2"), ("diamond", "tworoots2", "single"), ("fanout3", "tworoots2", "chain2")] + ([("fanin3", "fork4", "chain2")] if th else [])
    for pools in (1, 2, 3):
        for multi in (True, False):
            for si, (s1, s2, s3) in enumerate(shapes):
                if not th and pools == 3 and si > 0:
                    continue
                cfg = dict(algo="naive", pools=pools, multi=multi, K=K,
                           pipes=[pipe(s1, prio=3, at=0, durs=[1, "da", 1, 1], mems=[1, "ma", 1, 1]),      # a non-root operator may fail / be slow
                                  pipe(s2, prio=1, at="ta", durs=[1, "db"], mems=["mb", 1]),                 # with two roots: the first root may fail
                                  pipe(s3, prio=2, at="tb", durs=[2, 1], mems=[1, "mb"])])
                obs.append(CH(name=f"naive_P{pools}_{'multi' if multi else 'single'}_s{si}", harness="sched.naive",
                              sym=dict(cpus=I(1, 16 if th else 8), ram=I(1, 40 if th else 20), ma=I(1, 44 if th else 22), mb=I(1, 44 if th else 22), ta=I(0, 3), tb=I(0, 3), da=I(1, 2), db=I(1, 2)),
                              fixed=dict(cfg=cfg), timeout=900))
    # pool sizes that are not whole numbers (RAM in quarter GB: exact in binary): the container still gets exactly what is free
    for pools in ((1, 2, 3) if th else (2,)):
        for multi in (True, False):
            cfg = dict(algo="naive", pools=pools, multi=multi, K=K, ram_scale=0.25,
                       pipes=[pipe("chain3", prio=3, at=0, durs=[1, "da", 1], mems=[1, "ma", 1]), pipe("tworoots2", prio=1, at="ta", durs=[1, "db"], mems=["mb", 1]),
                              pipe("single", prio=2, at="tb", durs=[2], mems=[1])])
            obs.append(CH(name=f"naive_P{pools}_{'multi' if multi else 'single'}_quarter_gb", harness="sched.naive",
                          sym=dict(cpus=I(1, 8), ram=I(4, 160 if th else 80), ma=I(1, 22), mb=I(1, 22), ta=I(0, 3), tb=I(0, 3)),
                          fixed=dict(cfg=cfg, da=1, db=2), timeout=900))
    # a join operator whose parents finish at different times on different pools (single-operator containers)
    cfgj = dict(algo="naive", pools=2, multi=False, K=K,
                pipes=[pipe("diamond", prio=3, at=0, durs=[1, "da", "db", 1]), pipe("single", prio=1, at="ta", durs=[1]), pipe("single", prio=2, at="tb", durs=[1])])
    for dav in ((1, 2, 3, 4) if th else (1, 3)):
        for (lo, hi) in ((0, 2), (3, 5)):
            obs.append(CH(name=f"naive_join_timing_da{dav}_ta{lo}", harness="sched.naive", sym=dict(db=I(1, 4), ta=I(lo, hi), tb=I(0, 5)),
                          fixed=dict(cfg=cfgj, cpus=2, ram=10, ma=1, mb=1, da=dav), timeout=1200))
    cfg = dict(algo="naive", pools=2, multi=True, K=K,
               pipes=[pipe("chain3", prio=3, at=0, durs=["da", 1, 1], mems=["ma", 1, 1]), pipe("single", prio=1, at="ta", durs=[1]),
                      pipe("chain2", prio=2, at="tb", durs=[2, 1], mems=[1, "mb"])])
    tsym = dict(cpus=I(1, 8), ram=I(1, 20), ma=I(1, 22), ta=I(0, 3), tb=I(0, 3))
    for w in ("fail", "ok", "two_pools", "multi_asg"):
        obs.append(twin(f"naive_{w}", "sched.naive", tsym, dict(cfg=cfg), w))
    return PropSpec(
        property_id="C17", obligations=obs,
        functions=["naive_pipeline", "naive_pipeline_init", "Scheduler.run_one_tick", "Executor.run_one_tick", "PipelineRuntimeStatus.get_ops"],
        bounds={"pools": "1..3", "pipelines": 3, "ticks": K, "cpus_per_pool": "1..8", "ram_gb_per_pool": "1..20, and k/4 for k in 4..80"},
        outside=["more than 3 pipelines / pools", "runs longer than K ticks"],
        assumptions=A_ASSUME,
        explanation=("CrossHair+z3 lock-step simulation of the real naive scheduler with the real executor: pool sizes, memory demands (failures), durations and "
                     "arrival ticks are symbolic; every round is checked against the statement (one container per pool with exactly the pool's free CPU/RAM as read "
                     "before the round, first containers in arrival order, no suspension, nothing after a failure, single ready operator in single-operator mode)."))
