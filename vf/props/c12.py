from vf.props.common import *


def spec(tier):
    th = tier == "thorough"
    obs = []
    K = 16 if th else 12
    # priority scheduler: 3 pipelines, a late QUERY arrival forces preemption of multi-operator containers
    mixes = [(3, 1, 2), (3, 3, 1), (2, 1, 1), (2, 1, 3)] + ([(1, 2, 3), (3, 2, 2), (2, 3, 1)] if th else [])
    for pools in ((1, 2) if th else (1,)):
        for multi in (True, False):
            for (p1, p2, p3) in mixes:
                cfg = dict(algo="priority", pools=pools, multi=multi, K=K,
                           pipes=[pipe("chain3", prio=p1, at=0, durs=[1, "da", 1], mems=[1, "ma", 1]),
                                  pipe("chain2" if multi else "tworoots2", prio=p2, at="ta", durs=[2, 1], mems=[1, 1]),
                                  pipe("single", prio=p3, at="tb", durs=[2], mems=[1])])
                nm = f"prio_P{pools}_{'multi' if multi else 'single'}_{p1}{p2}{p3}"
                # small pools: contention, preemption, one-tick and multi-tick write-outs
                obs.append(CH(name=nm + "_cpu", harness="sched.priority", sym=dict(cpus=I(1, 24 if th else 12), ma=I(1, 6), ta=I(0, 3), tb=I(1, 4)),
                              fixed=dict(cfg=cfg, ram=25, da=2), timeout=1500))
                obs.append(CH(name=nm + "_ram", harness="sched.priority", sym=dict(ram=I(2, 90 if th else 45), ma=I(1, 6), tb=I(1, 4)),
                              fixed=dict(cfg=cfg, cpus=2, ta=1, da=2), timeout=1500))
    # single-operator containers on a pipeline made of two independent chains that progress unevenly, with lower-priority
    # work competing: the child of the root that finished first is ready while an earlier-listed operator is still blocked
    for (p1, p2) in ((1, 3), (2, 3), (3, 3)):
        cfg = dict(algo="priority", pools=1, multi=False, K=K,
                   pipes=[pipe("twochains", prio=p1, at=0, durs=["da", "db", 1, 2], mems=[1, 1, 1, 1]), pipe("tworoots2", prio=p2, at="ta", durs=[2, 1], mems=[1, 1])])
        obs.append(CH(name=f"prio_uneven_chains_{p1}{p2}", harness="sched.priority", sym=dict(cpus=I(2, 8), da=I(1, 4), db=I(1, 4), ta=I(0, 3)),
                      fixed=dict(cfg=cfg, ram=40, ma=1, tb=1), timeout=1500))
    # three query pipelines (two multi-operator query containers next to each other, a third query waiting)
    cfg = dict(algo="priority", pools=1, multi=True, K=K,
               pipes=[pipe("chain3", prio=1, at=0, durs=[2, "da", 1]), pipe("chain2", prio=1, at=0, durs=[1, 3]), pipe("chain2", prio=1, at="tb", durs=[2, 1]),
                      pipe("chain2", prio=3, at=0, durs=[1, 2])])
    obs.append(CH(name="prio_three_queries", harness="sched.priority", sym=dict(cpus=I(1, 6), tb=I(0, 3), da=I(1, 2)),
                  fixed=dict(cfg=cfg, ram=20, ma=1), timeout=1500))
    # two waiting queries, two preemptible batch containers at a boundary in the same round
    cfg = dict(algo="priority", pools=1, multi=True, K=K,
               pipes=[pipe("chain2", prio=3, at=0, durs=["da", 3]), pipe("chain2", prio=2, at=0, durs=[1, 3]), pipe("single", prio=1, at="ta", durs=[2]),
                      pipe("single", prio=1, at="tb", durs=[2])])
    obs.append(CH(name="prio_two_queries_two_victims", harness="sched.priority", sym=dict(cpus=I(1, 6), ta=I(1, 2), tb=I(1, 2), da=I(1, 2)),
                  fixed=dict(cfg=cfg, ram=20, ma=1), timeout=1500))
    if th:
        cfg2 = dict(cfg, pools=2)
        obs.append(CH(name="prio_two_queries_two_victims_P2", harness="sched.priority", sym=dict(cpus=I(1, 4), ta=I(1, 2), tb=I(1, 2), da=I(1, 2)),
                      fixed=dict(cfg=cfg2, ram=20, ma=1), timeout=2400))
    # an INTERACTIVE multi-operator container preempted for a query while BATCH pipelines queue up behind it
    cfg = dict(algo="priority", pools=1, multi=True, K=K,
               pipes=[pipe("chain3", prio=2, at=0, durs=[1, "da", 1]), pipe("single", prio=1, at="ta", durs=[2]), pipe("single", prio=3, at="tb", durs=[2]),
                      pipe("single", prio=3, at="tb", durs=[3])])
    obs.append(CH(name="prio_interactive_preempted", harness="sched.priority", sym=dict(cpus=I(1, 4), ta=I(1, 3), tb=I(1, 5), da=I(1, 2)),
                  fixed=dict(cfg=cfg, ram=20, ma=1), timeout=1500))
    # pool RAM that is not a whole number of GB (halves): RAM runs out before CPUs and a fraction of a GB stays free -
    # a later job must still get it (work conservation) and nothing is preempted while it is free
    for pools in (1, 2):
        cfg = dict(algo="priority", pools=pools, multi=True, K=K, ram_scale=0.5,
                   pipes=[pipe("single", prio=3, at=0, durs=[4]), pipe("single", prio=3, at=0, durs=[4]), pipe("single", prio=3, at=0, durs=[4]),
                          pipe("single", prio=3, at=0, durs=[4]), pipe("single", prio=2, at="ta", durs=[2]), pipe("single", prio=1, at="tb", durs=[2])])
        obs.append(CH(name=f"prio_half_gb_P{pools}", harness="sched.priority", sym=dict(ram=I(3, 24 if th else 13), ta=I(1, 2), tb=I(1, 3)),
                      fixed=dict(cfg=cfg, cpus=10, ma=1, da=1), timeout=1500))
    # the shared pool of priority-pool
    for (p1, p2, p3) in ((2, 1, 2), (1, 2, 1)):
        cfg = dict(algo="priority-pool", pools=2, multi=True, K=K,
                   pipes=[pipe("chain3", prio=p1, at=0, durs=[1, 2, 1], mems=[1, "ma", 1]),
                          pipe("chain2", prio=p2, at="ta", durs=[2, 1]), pipe("single", prio=p3, at="tb", durs=[2])])
        obs.append(CH(name=f"shared_pool_{p1}{p2}{p3}", harness="sched.priority", sym=dict(cpus=I(1, 24), ma=I(1, 6), ta=I(0, 2), tb=I(0, 2)),
                      fixed=dict(cfg=cfg, ram=30), timeout=1200))
    cfg = dict(algo="priority", pools=1, multi=True, K=K,
               pipes=[pipe("chain3", prio=3, at=0, durs=[1, 2, 1], mems=[1, "ma", 1]), pipe("chain2", prio=2, at=0, durs=[2, 1]),
                      pipe("single", prio=1, at="tb", durs=[2])])
    tsym = dict(cpus=I(1, 12), ma=I(1, 6), tb=I(1, 4))
    for w in ("suspend", "waiting", "fail", "ok"):
        obs.append(twin(f"prio_{w}", "sched.priority", tsym, dict(cfg=cfg, ram=25), w))
    return PropSpec(
        property_id="C12", obligations=obs,
        functions=["priority_scheduler", "init_priority_scheduler", "get_pool_with_max_avail_ram", "priority_pool_scheduler", "WaitingQueueJob",
                   "Executor.run_one_tick", "ResourcePool.run_one_tick", "Container.suspend_container"],
        bounds={"pools": "1..2" if th else 1, "pipelines": 3, "ticks": K, "cpus_per_pool": "1..12", "ram_gb_per_pool": "2..45, and k/2 for k in 3..13"},
        outside=["more than 3 pipelines / 2 pools", "runs longer than K ticks", "tick rates other than 1 (write-out lengths 1..2 ticks are reached through the pool size)"],
        assumptions=A_ASSUME,
        explanation=("CrossHair+z3 lock-step simulation of the real priority scheduler (and of priority-pool's shared pool) with the real executor: pool size, one memory demand and "
                     "arrival ticks symbolic, priority mixes and container mode per partition; every round is checked for strict priority order, arrival order inside a class, "
                     "work conservation against the scheduler's running snapshot of free resources, and the preemption rules (non-query, at an operator boundary, only while a "
                     "query waits, at most one per waiting query job); work whose suspension has ended must be offered again."))
