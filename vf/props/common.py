from vf.ob import CH, KN, PropSpec

I = lambda lo, hi: ("int", lo, hi)
B = ("bool",)
A_ASSUME = ["M1 floats inside scenarios are reals (CrossHair RealBasedSymbolicFloat) on domains where binary64 is exact (tick rate 1, integral sizes); counterexamples are replayed with true floats",
            "M2 f-string formatting on logger lines of eudoxia is skipped (vf/chplugin.py, line set from the AST of the current source)",
            "M3 logging disabled"]


def twin(name, harness, sym, fixed, want, timeout=90, group="twins"):
    f = dict(fixed)
    f["want"] = want
    return CH(name=f"twin_{name}", harness=harness, sym=sym, fixed=f, timeout=timeout, expect="violate", group=group)


def pipe(shape, prio=3, at=0, durs=None, mems=None, reads=None):
    return dict(shape=shape, prio=prio, at=at, durs=durs, mems=mems, reads=reads)
