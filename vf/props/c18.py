from vf.props.common import *


def spec(tier):
    th = tier == "thorough"
    obs = []
    K = 14 if th else 12
    shapes = [("fanout3", "single", "chain2"), ("diamond", "tworoots2", "single")] + ([("chain3", "fanin3", "fork4")] if th else [])
    for pools in (1, 2):
        for si, (s1, s2, s3) in enumerate(shapes):
            cfg = dict(algo="overbook", pools=pools, multi=False, oc=True, K=K,
                       pipes=[pipe(s1, prio=3, at=0, durs=["da", 1, 2, 1], mems=["ma", "mb", "ma", 1]),
                              pipe(s2, prio=1, at="ta", durs=[2, 1], mems=["mb", 1]),
                              pipe(s3, prio=2, at="tb", durs=[1, 1, 1, 1], mems=[1, "ma", 1, 1])])
            if th:
                obs.append(CH(name=f"overbook_P{pools}_s{si}", harness="sched.overbook",
                              sym=dict(cpus=I(1, 8), ram=I(1, 40), ma=I(0, 42), mb=I(0, 42), ta=I(0, 3), tb=I(0, 3), da=I(1, 2)),
                              fixed=dict(cfg=cfg), timeout=2400))
            else:
                for (lo, hi) in ((1, 3), (4, 6)):
                    obs.append(CH(name=f"overbook_P{pools}_s{si}_cpu{lo}", harness="sched.overbook",
                                  sym=dict(cpus=I(lo, hi), ram=I(1, 30), ma=I(0, 32), mb=I(0, 32), ta=I(0, 3)),
                                  fixed=dict(cfg=cfg, tb=1, da=1), timeout=1200))
    # abandonment after three failures: an operator that can never fit
    cfg = dict(algo="overbook", pools=1, multi=False, oc=True, K=K,
               pipes=[pipe("chain2", prio=3, at=0, durs=[1, 1], mems=["ma", 1]), pipe("single", prio=2, at="ta", durs=["da"], mems=["mb"])])
    obs.append(CH(name="overbook_abandon", harness="sched.overbook",
                  sym=dict(cpus=I(1, 4), ram=I(1, 10), ma=I(0, 12), mb=I(0, 12), ta=I(0, 4), da=I(1, 3)), fixed=dict(cfg=cfg), timeout=900))
    # abandonment while sibling operators are queued and CPUs are scarce (2 pools)
    cfg2 = dict(algo="overbook", pools=2, multi=False, oc=True, K=K,
                pipes=[pipe("single", prio=3, at=0, durs=[1], mems=["mb"]), pipe("fork4", prio=2, at="ta", durs=["da", 2, 2, 2], mems=[1, "ma", 1, 1])])
    obs.append(CH(name="overbook_abandon_fork", harness="sched.overbook",
                  sym=dict(cpus=I(1, 3), ram=I(2, 8), ma=I(0, 9), mb=I(0, 9), ta=I(0, 3), da=I(1, 3)), fixed=dict(cfg=cfg2), timeout=1200))
    # a fan-out pipeline whose own children fail while siblings are still queued (CPUs scarce)
    cfg3 = dict(algo="overbook", pools=1, multi=False, oc=True, K=K,
                pipes=[pipe("fork4", prio=3, at=0, durs=[1, "da", 2, 2], mems=[1, "ma", "ma", "mb"]), pipe("chain2", prio=2, at="ta", durs=[1, 1], mems=[1, "mb"])])
    obs.append(CH(name="overbook_fan_failures", harness="sched.overbook",
                  sym=dict(cpus=I(1, 3), ram=I(2, 8), ma=I(0, 9), mb=I(0, 9), ta=I(0, 3), da=I(1, 2)), fixed=dict(cfg=cfg3), timeout=1500))
    # two independent chains inside one pipeline that progress unevenly (the second root finishes while the first still runs):
    # the child of the finished root is ready although an earlier-listed operator is still blocked
    cfg4 = dict(algo="overbook", pools=1, multi=False, oc=True, K=K,
                pipes=[pipe("twochains", prio=3, at=0, durs=["da", "db", 1, 2], mems=[1, 1, "ma", 1]), pipe("single", prio=2, at="ta", durs=[2], mems=[1])])
    obs.append(CH(name="overbook_uneven_chains", harness="sched.overbook",
                  sym=dict(cpus=I(1, 4), da=I(1, 4), db=I(1, 4), ma=I(0, 9), ta=I(0, 3)), fixed=dict(cfg=cfg4, ram=8, mb=1), timeout=1500))
    tsym = dict(cpus=I(1, 4), ram=I(1, 10), ma=I(0, 12), mb=I(0, 12), ta=I(0, 4))
    for w in ("fail", "ok", "abandoned"):
        obs.append(twin(f"overbook_{w}", "sched.overbook", tsym, dict(cfg=cfg, da=1), w))
    return PropSpec(
        property_id="C18", obligations=obs,
        functions=["overbook_scheduler", "update_state", "try_make_assignment", "make_assignments", "overbook_init", "Executor.run_one_tick",
                   "ResourcePool._run_out_of_memory_killer"],
        bounds={"pools": "1..2", "pipelines": 3, "ticks": K, "cpus_per_pool": "1..6", "ram_gb_per_pool": "1..30"},
        outside=["more than 3 pipelines / 2 pools", "runs longer than K ticks"],
        assumptions=A_ASSUME,
        explanation=("CrossHair+z3 lock-step simulation of the real overbook scheduler (overcommit on) with the real executor incl. its pool-level OOM killer: CPU count, "
                     "RAM, memory demands and arrival ticks symbolic; every round: one ready operator / one CPU / whole-pool RAM per container, containers <= CPUs, no ready "
                     "operator of a live pipeline waits while a CPU is free after a triggered round, nothing assigned after the third failure."))
