from vf.props.common import *


def spec(tier):
    th = tier == "thorough"
    obs = []
    combos = ["FFF", "GFF", "FGF", "GGF"] + (["GGG", "FFG", "GFG", "FGG"] if th else [])
    for oc in (False, True):
        for kinds in combos:
            for sus in ((-1, 1, 2) if th else (-1, 1)):
                ks = list(kinds)
                sym = {}
                fixed = dict(oc=oc, kinds=ks, sus_at=sus, dA=1, t1=0, t2=1)
                for i, k in enumerate(ks):
                    if k == "F":
                        sym[f"x{i}"] = I(0, 30)
                        sym[f"a{i}"] = I(1, 30)
                    else:
                        sym[f"x{i}"] = I(0, 65)
                        sym[f"a{i}"] = I(1, 70)
                # keep <= 5 symbolic sizes per condition
                if oc:
                    sym["cap"] = I(20, 90)
                    fixed["a2"] = 30 if ks[2] == "F" else 70
                    sym.pop("a2")
                else:
                    fixed["cap"] = 200
                    fixed["a2"] = 30 if ks[2] == "F" else 70
                    sym.pop("a2")
                obs.append(CH(name=f"memory_oc{int(oc)}_{kinds}_s{sus}", harness="c04.memory_step", sym=sym, fixed=fixed,
                              timeout=1200 if th else 600))
    # timing of starts and suspension symbolic
    for oc in (False, True):
        obs.append(CH(name=f"timing_oc{int(oc)}", harness="c04.memory_step",
                      sym=dict(t1=I(0, 3), t2=I(0, 3), sus_at=I(-1, 4), dA=I(1, 3), x0=I(0, 12)),
                      fixed=dict(oc=oc, kinds=["F", "G", "F"], cap=60 if oc else 200, a0=10, a1=45, a2=30, x1=45, x2=20), timeout=900))
    tsym = dict(x0=I(0, 30), a0=I(1, 30), x1=I(0, 65), a1=I(1, 70), cap=I(20, 90))
    tfix = dict(oc=True, kinds=["F", "G", "F"], sus_at=1, dA=1, t1=0, t2=1, a2=30, x2=10)
    for w in ("kill", "pool_kill", "suspended"):
        obs.append(twin(f"memory_{w}", "c04.memory_step", tsym, tfix, w))
    obs.append(KN(name="oom_tick", func="vf.kernels.c05:growth", args=dict(tier=tier), timeout=600))
    return PropSpec(
        property_id="C04", obligations=obs,
        functions=["ResourcePool.run_one_tick", "ResourcePool._run_out_of_memory_killer", "ResourcePool._reconcile_consumed_ram",
                   "ResourcePool.get_consumed_ram_gb", "Container.set_current_memory_usage", "Container._tick_generator", "Container.kill"],
        bounds={"containers": 3, "ticks": 7, "sizes_gb": "0..90", "tick_rate": 1},
        outside=["accumulated float drift of the incremental usage counter over long runs (bounded by reasoning: |drift| <= #updates * 2^-53 * capacity, reset at every container exit and suspension); "
                 "replays compare with tolerance 1e-6*capacity", "more than 3 containers / 7 ticks"],
        assumptions=A_ASSUME,
        explanation=("CrossHair+z3 over the real pool with three containers of fixed or growing memory, symbolic demands, allocations and capacity, with and without overcommit and with a "
                     "suspension: after every tick usage <= allocation, sum <= capacity, reported usage = sum over running containers = the independent demand model; a kill happens iff "
                     "the container's own demand exceeded its allocation or (overcommit) the summed real demand exceeded capacity."))
