from vf.props.common import *


def spec(tier):
    th = tier == "thorough"
    obs = []
    combos = ["FFF", "GFF", "FGF"] + (["GGF", "GGG", "FFG"] if th else [])
    for oc in (False, True):
        for kinds in combos:
            for sus in ((-1, 1, 2) if th else (-1, 1)):
                ks = list(kinds)
                fixed = dict(oc=oc, kinds=ks, sus_at=sus, dA=1, t1=0, t2=1)
                full = {}
                for i, k in enumerate(ks):
                    full[f"x{i}"] = I(0, 30) if k == "F" else I(0, 45)
                    full[f"a{i}"] = I(1, 30) if k == "F" else I(1, 50)
                    fixed[f"x{i}"] = 8 if k == "F" else 30
                    fixed[f"a{i}"] = 30 if k == "F" else 50
                fixed["cap"] = 200
                # at most four symbolic sizes per condition: demand+allocation of container 0, demand of 1,
                # and the capacity (overcommit) or the demand of container 2 (no overcommit)
                groups = [["x0", "a0", "x1", "cap" if oc else "x2"], ["x1", "a1", "x2", "cap" if oc else "a2"]]
                if not th:
                    groups = groups[:1] if kinds != "FGF" else groups[1:]
                for gi, g in enumerate(groups):
                    sym = {}
                    f2 = dict(fixed)
                    for v in g:
                        sym[v] = I(20, 90) if v == "cap" else full[v]
                        f2.pop(v, None)
                    obs.append(CH(name=f"memory_oc{int(oc)}_{kinds}_s{sus}_g{gi}", harness="c04.memory_step", sym=sym, fixed=f2,
                                  timeout=1200 if th else 600))
    # cancelling changes: container 2 starts (possibly above its limit) in the tick container 1 finishes
    for oc in (False, True):
        obs.append(CH(name=f"cancelling_oc{int(oc)}", harness="c04.memory_step",
                      sym=dict(x1=I(0, 30), x2=I(0, 30), a2=I(1, 30), t2=I(1, 4)),
                      fixed=dict(oc=oc, kinds=["F", "F", "F"], cap=200, a0=30, a1=30, x0=5, dA=1, t1=0, sus_at=-1), timeout=900))
    # timing of starts and suspension symbolic
    for oc in (False, True):
      for t1v in (0, 1, 2, 3):
        obs.append(CH(name=f"timing_oc{int(oc)}_t{t1v}", harness="c04.memory_step",
                      sym=dict(t2=I(0, 3), sus_at=I(-1, 4), dA=I(1, 3), x0=I(0, 12)),
                      fixed=dict(oc=oc, kinds=["F", "G", "F"], cap=60 if oc else 200, a0=10, a1=45, a2=30, x1=45, x2=20, t1=t1v), timeout=900))
    # full simulations under the shipped schedulers
    from vf.props.common import pipe
    for algo, pools, oc in (("naive", 2, False), ("priority", 1, False), ("priority-pool", 2, False), ("overbook", 1, True)):
        cfg = dict(algo=algo, pools=pools, oc=oc, multi=True, K=12 if th else 10,
                   pipes=[pipe("chain3", prio=3, at=0, durs=[1, 2, 1], mems=[1, "ma", 1], reads=[0, 0, 0]),
                          pipe("single", prio=1, at=2, durs=[2], mems=["mb"]),
                          pipe("chain2", prio=2, at=1, durs=[1, 1], mems=[None, 1], reads=[45, 0])])
        obs.append(CH(name=f"sim_{algo}", harness="c04.sim_memory", sym=dict(cpus=I(1, 10), ma=I(1, 12), mb=I(1, 12), **({"ram": I(1, 14)} if algo in ("naive", "overbook") else {})),
                      fixed=dict(cfg=cfg, **({} if algo in ("naive", "overbook") else {"ram": 30})), timeout=900))
    tsym = dict(x0=I(0, 30), a0=I(1, 30), x1=I(0, 65), a1=I(1, 70), cap=I(20, 90))
    tfix = dict(oc=True, kinds=["F", "G", "F"], sus_at=1, dA=1, t1=0, t2=1, a2=30, x2=10)
    for w in ("kill", "pool_kill", "suspended"):
        obs.append(twin(f"memory_{w}", "c04.memory_step", tsym, tfix, w))
    obs.append(KN(name="oom_tick", func="vf.kernels.c05:growth", args=dict(tier=tier), timeout=600))
    return PropSpec(
        property_id="C04", obligations=obs,
        functions=["ResourcePool.run_one_tick", "ResourcePool._run_out_of_memory_killer", "ResourcePool._reconcile_consumed_ram",
                   "ResourcePool.get_consumed_ram_gb", "Container.set_current_memory_usage", "Container._tick_generator", "Container.kill"],
        bounds={"containers": 3, "ticks": 7, "sizes_gb": "0..90", "tick_rate": 1},
        outside=["accumulated float drift of the incremental usage counter over long runs (bounded by reasoning: |drift| <= #updates * 2^-53 * capacity, reset at every container exit and suspension); "
                 "replays compare with tolerance 1e-6*capacity", "more than 3 containers / 7 ticks"],
        assumptions=A_ASSUME,
        explanation=("CrossHair+z3 over the real pool with three containers of fixed or growing memory, symbolic demands, allocations and capacity, with and without overcommit and with a "
                     "suspension: after every tick usage <= allocation, sum <= capacity, reported usage = sum over running containers = the independent demand model; a kill happens iff "
                     "the container's own demand exceeded its allocation or (overcommit) the summed real demand exceeded capacity."))
