from vf.ob import CH, KN, PropSpec

I = lambda lo, hi: ("int", lo, hi)


def spec(tier):
    obs = []
    thorough = tier == "thorough"
    K = 8 if thorough else 6
    CM, RM = (16, 128) if thorough else (8, 64)      # size ranges
    base = dict(cap_cpu=4, cap_ram=40, c1=1, r1=10, c2=1, r2=10, c3=1, r3=10, m1=1, m2=1, m3=1,
                d1a=1, d1b=2, d2a=2, d3a=1, t2=1, sus_at=-1, overcommit=False, K=K)

    def mk(name, sym, timeout=240, **fixed):
        f = dict(base)
        f.update(fixed)
        for k in sym:
            f.pop(k, None)
        obs.append(CH(name=name, harness="c03.conserve", sym=sym, fixed=f, timeout=timeout))

    # V1a: CPU sizes symbolic (zero / negative / oversized requests), RAM valid
    for t2 in ((0, 1, 2) if thorough else (0, 1)):
        for sus in ((-1, 1, 2) if thorough else ((-1, 1) if t2 == 1 else (-1,))):
            mk(f"cpu_t{t2}_s{sus}", dict(cap_cpu=I(0, CM), c1=I(-1, CM + 1), c2=I(-1, CM + 1), c3=I(-1, CM + 1)),
               t2=t2, sus_at=sus)
    for t2 in (0, 1):
        mk(f"cpu_oc1_t{t2}", dict(cap_cpu=I(0, CM), c1=I(-1, CM + 1), c2=I(-1, CM + 1), c3=I(-1, CM + 1)), t2=t2, sus_at=-1, overcommit=True)
    # V1b: RAM sizes symbolic, CPU valid, with and without overcommit
    for oc in (False, True):
        for t2 in ((0, 1, 2) if thorough else (0, 1)):
            mk(f"ram_oc{int(oc)}_t{t2}_nosus", dict(cap_ram=I(0, RM), r1=I(-1, RM + 1), r2=I(-1, RM + 1), r3=I(-1, RM + 1)),
               overcommit=oc, t2=t2, sus_at=-1, m1=0, m2=0, m3=0)
        for t2 in ((0, 1, 2) if thorough else (1,)):
            for sus in ((1, 2) if thorough else (1,)):
                for lo, hi in (((-1, 19), (20, 39), (40, 65), (66, 99), (100, 129)) if thorough else ((-1, 19), (20, 39), (40, 65))):
                    mk(f"ram_oc{int(oc)}_t{t2}_s{sus}_r{lo}", dict(cap_ram=I(0, RM), r1=I(lo, hi), r2=I(-1, RM + 1)),
                       overcommit=oc, t2=t2, sus_at=sus, m1=0, m2=0, m3=0, r3=5, timeout=240)
    # V1b': RAM handed out in eighths of a GB (pool and allocations not whole numbers; sums stay exact in binary)
    for oc in (False, True):
        for sus in (-1, 1):
            mk(f"ram_eighths_oc{int(oc)}_s{sus}", dict(cap_ram=I(0, RM), r1=I(1, 40), r2=I(-1, RM + 1)),
               overcommit=oc, t2=1, sus_at=sus, m1=0, m2=0, m3=0, r3=5, scale=0.125, timeout=300)
    # V1c: both dimensions of one late job + capacities
    for oc in (False, True):
        mk(f"mixed_oc{int(oc)}", dict(cap_cpu=I(0, CM), cap_ram=I(0, RM), c2=I(-1, CM + 1), r2=I(-1, RM + 1)),
           overcommit=oc, t2=1, sus_at=1, m1=0, m2=0, m3=0)
    # V2: memory demands vs allocations (individual OOM, pool-level OOM with overcommit)
    for oc in (False, True):
        for t2 in ((0, 1, 2) if thorough else (1,)):
            for sus in (-1, 1):
                mk(f"memory_oc{int(oc)}_t{t2}_s{sus}",
                   dict(cap_ram=I(30, 64), m1=I(0, 66), m2=I(0, 66), m3=I(0, 66)),
                   overcommit=oc, t2=t2, sus_at=sus, r1=20, r2=(30 if oc else 10), r3=(25 if oc else 10))
                mk(f"memalloc_oc{int(oc)}_t{t2}_s{sus}",
                   dict(r1=I(1, 45), r2=I(1, 45), m1=I(0, 46), m2=I(0, 46)),
                   overcommit=oc, t2=t2, sus_at=sus, cap_ram=40, r3=5, m3=3)
    # V3: timing - durations and the tick of the suspension request are symbolic
    for oc in (False, True):
        for t2 in ((0, 1, 2, 3) if thorough else (2,)):
            mk(f"timing_oc{int(oc)}_t{t2}",
               dict(d1a=I(1, 3), d1b=I(1, 3), d2a=I(1, 3), d3a=I(1, 3), sus_at=I(-1, K - 1)),
               overcommit=oc, t2=t2, r1=25, m2=(12 if oc else 3))
    # overlapping write-outs
    obs.append(CH(name="two_suspensions", harness="c03.conserve_two_suspensions",
                  sym=dict(ramA=I(1, 70), ramB=I(1, 70), cpuA=I(1, 3), cpuB=I(1, 3), dA=I(1, 2), dB=I(1, 2), dC=I(1, 4)),
                  fixed=dict(cap_cpu=8, cap_ram=200, K=8), timeout=900))
    for w in ("both_suspending", "suspending_only", "idle_end"):
        obs.append(CH(name=f"twin_two_{w}", harness="c03.conserve_two_suspensions", sym=dict(ramA=I(1, 70), ramB=I(1, 70), dA=I(1, 2), dB=I(1, 2), dC=I(1, 4)),
                      fixed=dict(cap_cpu=8, cap_ram=200, cpuA=1, cpuB=2, K=8, want=w), timeout=90, expect="violate", group="twins2"))
    # full simulations under the shipped schedulers
    from vf.props.common import pipe
    for algo, pools, oc in (("naive", 2, False), ("priority", 1, False), ("priority-pool", 2, False), ("overbook", 1, True)):
        cfg = dict(algo=algo, pools=pools, oc=oc, multi=True, K=12 if thorough else 10,
                   pipes=[pipe("chain3", prio=3, at=0, durs=[1, 2, 1], mems=[1, "ma", 1], reads=[0, 0, 0]),
                          pipe("single", prio=1, at=2, durs=[2], mems=["mb"]),
                          pipe("chain2", prio=2, at=1, durs=[1, 1], mems=[None, 1], reads=[45, 0])])
        obs.append(CH(name=f"sim_{algo}", harness="c03.sim_conserve", sym=dict(cpus=I(1, 10), ma=I(1, 12), mb=I(1, 12), **({"ram": I(1, 14)} if algo in ("naive", "overbook") else {})),
                      fixed=dict(cfg=cfg, **({} if algo in ("naive", "overbook") else {"ram": 30})), timeout=900))
    # reachability twins
    for want, fixed in (("rejected", {}), ("accepted2", {}), ("suspended", dict(sus_at=1)),
                        ("fail", {}), ("ok", {}), ("bad_size", {})):
        f = dict(base)
        f.update(fixed)
        sym = dict(cap_cpu=I(0, 8), cap_ram=I(0, 64), c1=I(-1, 9), r1=I(-1, 65), c2=I(-1, 9), r2=I(-1, 65),
                   m1=I(0, 66))
        for k in sym:
            f.pop(k, None)
        f["want"] = want
        obs.append(CH(name=f"twin_{want}", harness="c03.conserve", sym=sym, fixed=f, timeout=60,
                      expect="violate", group="twins"))
    return PropSpec(
        property_id="C03", obligations=obs,
        functions=["ResourcePool.__init__", "ResourcePool.run_one_tick", "ResourcePool.verify_valid_assignment",
                   "ResourcePool.verify_valid_suspend", "ResourcePool._run_out_of_memory_killer",
                   "ResourcePool._reconcile_consumed_ram", "Container.__init__", "Container._tick_generator",
                   "Container.tick", "Container.kill", "Container.suspend_container",
                   "Container.suspend_container_tick", "Assignment.__init__", "PipelineRuntimeStatus.transition"],
        bounds={"ticks": K, "containers": 3, "tick_rate": 1, "cpu": f"[-1,{CM + 1}]", "ram_gb": f"[-1,{RM + 2}]"},
        outside=["runs longer than K ticks", "more than 3 containers per pool", "tick rates other than 1 (rate enters only through tick counts: C05/C10 kernels)"],
        assumptions=["M1 real-valued floats on an integral domain (exact)", "M2 logging f-strings skipped", "M3 logging disabled"],
        explanation=("Bounded symbolic execution (CrossHair+z3) of the real ResourcePool/Container/Assignment classes over a scripted "
                     "command sequence whose sizes, memory demands, durations and suspension tick are symbolic; the conservation "
                     "invariant is asserted after every tick and after every rejected command; every feasible path is explored "
                     "('Confirmed over all paths') per concrete partition."))
