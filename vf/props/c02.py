from vf.props.common import *


def spec(tier):
    th = tier == "thorough"
    obs = []
    # A1: one request from an arbitrary state vector (inductive step: covers histories of any length)
    n = 3 if th else 2
    nb = n * (n - 1) // 2
    for who in range(n):
        for target in range(6):
            owns = range(6) if th else (None,)
            for own in owns:
                sym = {f"e{i}": B for i in range(nb)}
                sym.update({f"s{j}": I(0, 5) for j in range(n)})
                fixed = dict(n=n, who=who, target=target)
                for i in range(nb, 3):
                    fixed[f"e{i}"] = False
                for j in range(n, 3):
                    fixed[f"s{j}"] = 0
                pre = [f"s{who} == {own}"] if own is not None else []
                obs.append(CH(name=f"table_n{n}_op{who}_to{target}" + (f"_from{own}" if own is not None else ""),
                              harness="c02.transition_step", sym=sym, fixed=fixed, pre=pre, timeout=300))
    if not th:
        # the 3-operator case for the operator that can have two parents, every target, from ASSIGNED and RUNNING
        for target in range(6):
            for own in (1, 2):
                obs.append(CH(name=f"table_n3_op2_to{target}_from{own}", harness="c02.transition_step",
                              sym=dict(e1=B, e2=B, s0=I(0, 5), s1=I(0, 5)),
                              fixed=dict(n=3, who=2, target=target, e0=True, s2=own), timeout=200))
    tsym = dict(e0=B, s0=I(0, 5), s1=I(0, 5))
    tfix = dict(n=2, e1=False, e2=False, s2=0, who=1, target=2)
    obs.append(twin("table_accepted", "c02.transition_step", tsym, tfix, "accepted"))
    obs.append(twin("table_refused_dep", "c02.transition_step", tsym, tfix, "refused_dep"))

    # A2: request histories from the initial state (literal reading of the quantifier)
    if th:
        plans = [(2, 4), (3, 3)]
    else:
        plans = [(2, 3)]
    for (n, depth) in plans:
        nb = n * (n - 1) // 2
        for w0 in range(n):
            for t0 in range(6):
                sym = {f"e{i}": B for i in range(nb)}
                for k in range(1, depth):
                    sym[f"w{k}"] = I(0, n - 1)
                    sym[f"t{k}"] = I(0, 5)
                fixed = dict(n=n, depth=depth, w0=w0, t0=t0)
                for i in range(nb, 3):
                    fixed[f"e{i}"] = False
                for k in range(depth, 4):
                    if k < 3 or True:
                        fixed.setdefault(f"w{k}", 0)
                        fixed.setdefault(f"t{k}", 0)
                if t0 != 1 and not th:
                    # only PENDING->ASSIGNED is accepted first; the other first requests are refused and leave the
                    # initial state: one shard (t0=0) represents them in the quick tier
                    if t0 != 0:
                        continue
                obs.append(CH(name=f"history_n{n}_d{depth}_w{w0}t{t0}", harness="c02.request_history", sym=sym,
                              fixed=fixed, timeout=3000 if th else 300))
    # a late stage appended (Pipeline.new_operator) after the operators made progress: existing operators keep their states
    obs.append(CH(name="history_late_operator_at2", harness="c02.request_history", sym=dict(e0=B, w1=I(0, 1), t1=I(0, 5), w2=I(0, 1), t2=I(0, 5)),
                  fixed=dict(n=2, depth=3, w0=0, t0=1, e1=False, e2=False, w3=0, t3=0, grow_at=2), timeout=600))
    obs.append(CH(name="history_late_operator_after_progress", harness="c02.request_history", sym=dict(e0=B, w2=I(0, 1), t2=I(0, 5), w3=I(0, 1), t3=I(0, 5)),
                  fixed=dict(n=2, depth=4, w0=0, t0=1, w1=0, t1=2, e1=False, e2=False, grow_at=3), timeout=600))
    obs.append(twin("history_grown", "c02.request_history", dict(e0=B, w2=I(0, 1), t2=I(0, 5), w3=I(0, 1), t3=I(0, 5)),
                    dict(n=2, depth=4, w0=0, t0=1, w1=0, t1=2, e1=False, e2=False, grow_at=3), "grown"))
    obs.append(twin("history_deep", "c02.request_history", dict(e0=B, w1=I(0, 1), t1=I(0, 5), w2=I(0, 1), t2=I(0, 5)),
                    dict(n=2, depth=3, w0=0, t0=1, e1=False, e2=False, w3=0, t3=0), "deep"))

    # A3: executor-level command sequences (assign any subset in any state / suspend)
    def live(n, cmd0, ebits, name, th_only=False):
        nb = n * (n - 1) // 2
        sym = dict(cmd1=I(0, 8), cmd2=I(0, 8), cmd3=I(0, 8), alloc=I(1, 2), mem=I(1, 2))
        pre = []
        if n == 2:
            pre = [f"cmd{k} <= 3 or cmd{k} == 8" for k in (1, 2, 3)]
        fixed = dict(n=n, cmd0=cmd0, cmd4=0, d0=1, d1=2, d2=1, K=6)
        for i in range(3):
            fixed[f"e{i}"] = ebits[i] if i < len(ebits) else False
        obs.append(CH(name=name, harness="c02.live_containers", sym=sym, fixed=fixed, pre=pre, timeout=2400 if th else 300))
    for cmd0 in (1, 2, 3):
        for e0 in (False, True):
            live(2, cmd0, [e0], f"live_n2_c{cmd0}_e{int(e0)}")
    if th:
        import itertools
        for cmd0 in range(1, 8):
            for eb in itertools.product((False, True), repeat=3):
                live(3, cmd0, list(eb), f"live_n3_c{cmd0}_e{''.join(str(int(b)) for b in eb)}")
    else:
        live(3, 7, [True, False, True], "live_n3_c7_chain")
        live(3, 1, [True, True, False], "live_n3_c1_fanout")
    lsym = dict(cmd1=I(0, 8), cmd2=I(0, 8), cmd3=I(0, 8), alloc=I(1, 2), mem=I(1, 2))
    lfix = dict(n=2, cmd0=3, cmd4=0, d0=1, d1=2, d2=1, K=6, e0=True, e1=False, e2=False)
    for w in ("assign_refused", "tick_refused", "suspended", "fail", "ok"):
        obs.append(twin(f"live_{w}", "c02.live_containers", lsym, lfix, w, group="twins_live"))

    # A3b: one pipeline split over two containers that are both suspended (write-outs of different length):
    # an operator stays with its live container until that container's own write-out ends
    obs.append(CH(name="split_pipeline_suspensions", harness="c10.two_suspensions",
                  sym=dict(ramA=I(1, 70), ramB=I(1, 70), dA=I(1, 2), dB=I(1, 2)),
                  fixed=dict(K=8, cpuA=1, cpuB=2, same_pipeline=True, tag="C02"), timeout=900))
    # A4: histories produced by full simulations
    algos = [("naive", 1, False), ("priority", 1, False), ("priority-pool", 2, False), ("overbook", 1, True)]
    for algo, pools, oc in algos:
        for multi in (True, False):
            if algo == "priority-pool" and not multi:
                continue
            cfg = dict(algo=algo, pools=pools, oc=oc, multi=multi, K=12 if th else 10,
                       pipes=[pipe("chain3", prio=3, at=0, durs=[1, 2, 1], mems=[1, "ma", 1]),
                              pipe("single", prio=1, at=2, durs=[2]),
                              pipe("chain2", prio=2, at=1, durs=[1, 1])])
            nm = f"sim_{algo}_{'multi' if multi else 'single'}"
            obs.append(CH(name=nm + "_cpu", harness="c02.sim_lifecycle", sym=dict(cpus=I(1, 24 if th else 10), ma=I(1, 12)),
                          fixed=dict(cfg=cfg, ram=40), timeout=600))
            if th:
                obs.append(CH(name=nm + "_ram", harness="c02.sim_lifecycle", sym=dict(ram=I(2, 60), ma=I(1, 12)),
                              fixed=dict(cfg=cfg, cpus=4), timeout=600))
    return PropSpec(
        property_id="C02", obligations=obs,
        functions=["PipelineRuntimeStatus.check_transition", "PipelineRuntimeStatus.transition", "Operator.transition",
                   "Assignment.__init__", "Container._tick_generator", "Container.kill", "Container.suspend_container",
                   "Container.suspend_container_tick", "ResourcePool.run_one_tick", "Executor.run_one_tick",
                   "naive_pipeline", "priority_scheduler", "priority_pool_scheduler", "overbook_scheduler"],
        bounds={"operators_table": 3 if th else "2 (all) + 3 (operator 2, from ASSIGNED/RUNNING)", "history_depth": "4 (2 ops), 3 (3 ops)" if th else "3 (2 ops)",
                "executor_ticks": 6, "sim_ticks": 12 if th else 10},
        outside=["pipelines with more than 3 operators in the table/history harnesses", "request sequences deeper than the stated depth (covered by the one-step table harness: the step holds from every state vector)"],
        assumptions=A_ASSUME + ["the documented transition table is written in vf/harness/c02.py (DOC), independently of VALID_TRANSITIONS"],
        explanation=("CrossHair+z3 over the real PipelineRuntimeStatus/Assignment/Executor: (A1) one state-change request from an arbitrary state vector "
                     "written directly into the runtime status, accepted iff the documented table and the dependency rule allow it, refusals leave states "
                     "and counts unchanged, counts stay the histogram (inductive); (A2) request histories from the initial state to a fixed depth; (A3) "
                     "executor-level sequences of assign-any-subset / suspend commands; (A4) full simulations under the shipped schedulers."))
