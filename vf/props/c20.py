from vf.props.common import *


def spec(tier):
    obs = [KN(name="snap", func="vf.kernels.c20:snap", args=dict(tier=tier), timeout=3600 if tier == "thorough" else 900),
           KN(name="jitter", func="vf.kernels.c20:jitter", args=dict(tier=tier), timeout=300),
           KN(name="sample_seed", func="vf.kernels.c20:sample_seed", args=dict(), timeout=300),
           KN(name="tool_columns", func="vf.kernels.c20:tool_columns", args=dict(tier=tier), timeout=600)]
    obs.append(KN(name="jitter_hashseed", func="vf.kernels.c20:jitter_hashseed", args=dict(tier=tier), timeout=600))
    th = tier == "thorough"
    # Engine A: real snap_command / jitter_command on a trace with symbolic structure (in-memory files, stub generator)
    base = dict(tool=0, n=3, k1=1, k2=2, k3=3, a1=1, a2=1, a3=1, f1=0, f2=0, f3=0, di=1, ri=0, blank_mem=True)

    def tt(name, sym, timeout=600, **fx):
        f = dict(base)
        f.update(fx)
        for k in sym:
            f.pop(k, None)
        obs.append(CH(name=name, harness="c20.tools_trace", sym=sym, fixed=f, timeout=timeout))
    amax = 7 if th else 5
    tt("snap_trace_arrivals", dict(a1=I(0, amax), a2=I(0, amax), ri=I(0, 3)), tool=0, a3=2)
    tt("snap_trace_shape", dict(n=I(1, 3), k1=I(1, 3), k2=I(1, 3), k3=I(1, 3), blank_mem=B), tool=0, a1=4, a2=1, a3=5, ri=1)
    tt("jitter_trace_arrivals", dict(a1=I(0, amax), a2=I(0, amax), di=I(0, 3)), tool=1, f1=3, f2=0, f3=2, a3=2)
    tt("jitter_trace_arrivals_b", dict(a2=I(0, amax), a3=I(0, amax), f2=I(0, 3)), tool=1, f1=1, f3=2, a1=3, di=2)
    tt("jitter_trace_draws", dict(f1=I(0, 3), f2=I(0, 3), f3=I(0, 3), di=I(0, 3)), tool=1, a1=4, a2=3, a3=1)
    tt("jitter_trace_shape", dict(n=I(1, 3), k1=I(1, 3), k2=I(1, 3), k3=I(1, 3), blank_mem=B), tool=1, a1=5, a2=3, a3=1, f1=0, f2=1, f3=3, di=2)
    tsym = dict(a1=I(0, 5), a2=I(0, 5), f1=I(0, 3), f2=I(0, 3))
    obs.append(twin("tools_reordered", "c20.tools_trace", tsym, {**{k: v for k, v in base.items() if k not in tsym}, "tool": 1, "di": 2}, "reordered"))
    obs.append(twin("tools_tie", "c20.tools_trace", tsym, {**{k: v for k, v in base.items() if k not in tsym}, "tool": 1, "di": 2}, "tie"))
    obs.append(twin("tools_moved", "c20.tools_trace", tsym, {**{k: v for k, v in base.items() if k not in tsym}, "tool": 0, "ri": 0}, "moved"))
    return PropSpec(
        property_id="C20", obligations=obs,
        functions=["tools.snap_command", "tools.jitter_command", "tools.snap_command/jitter_command (whole command, in-memory files: c20.tools_trace)", "tools._sensitivity_task", "WorkloadGenerator.__init__"],
        bounds={"snap": "arrival*tps in [0,1e7]; never-up / less-than-a-tick for all tps in [1,1e5] (RLX, symbolic rate); on-grid and idempotence per listed tick rate (RLX + monotone rounding)",
                "jitter": "arrival in [0,1e7], delta in [0,1e6], every draw in [0,delta] (RLX)", "tools_trace": "1-3 pipelines x 1-3 operator rows, arrivals from a dyadic menu of 6 (8) incl. ties and descending order, delta in {0, 0.5, 2, 8}, draw in {0, 1/4, 1/2, 1} x delta per pipeline, tick rate in {1, 2, 4, 8}; identifiers p1, p10, p2 (string order differs from file order)", "seeds": "start_seed+i: AST data-flow + run of the real function with the heavy parts stubbed"},
        outside=["tick rates not in the per-rate list for the exact on-grid / idempotence clauses (the list is in the evidence)", "the CSV text <-> float conversion of cells (CPython C code, M8)",
                 "multiprocessing.Pool dispatch of sensitivity-sample (only the per-task function is analysed)"],
        assumptions=A_ASSUME + ["tools_trace: tools.open / tools.Path replaced by an in-memory file system, numpy.random.default_rng by a scripted stub (M4); csv cells cross C code and are concrete per path (M8)", "M10 RLX relative-error model, strengthened with monotonicity of rounding (sound for round-to-nearest)", "M4: rng.uniform(0, delta) returns a value in [0, delta]"],
        explanation=("Engine B: the statements that compute `snapped` and `jittered` are extracted from tools.py with ast and evaluated path by path over the RLX domain: snap never moves an "
                     "arrival up, moves it by less than one tick, leaves on-grid times (k/tps) unchanged and is idempotent (unsat for every listed rate); a bit-exact FPX search produces "
                     "counterexamples when a proof fails (0.29@100 on the unrepaired tree).  jitter: result in [a, a+delta] for any draw in [0, delta].  Real snap/jitter/_sensitivity_task "
                     "are run on small traces to validate the translation and to check that every other column, the row grouping and the sort order are preserved."))
