from vf.props.common import *


def spec(tier):
    obs = [KN(name="snap", func="vf.kernels.c20:snap", args=dict(tier=tier), timeout=3600 if tier == "thorough" else 900),
           KN(name="jitter", func="vf.kernels.c20:jitter", args=dict(tier=tier), timeout=300),
           KN(name="sample_seed", func="vf.kernels.c20:sample_seed", args=dict(), timeout=300),
           KN(name="tool_columns", func="vf.kernels.c20:tool_columns", args=dict(tier=tier), timeout=600)]
    return PropSpec(
        property_id="C20", obligations=obs,
        functions=["tools.snap_command", "tools.jitter_command", "tools._sensitivity_task", "WorkloadGenerator.__init__"],
        bounds={"snap": "arrival*tps in [0,1e7]; never-up / less-than-a-tick for all tps in [1,1e5] (RLX, symbolic rate); on-grid and idempotence per listed tick rate (RLX + monotone rounding)",
                "jitter": "arrival in [0,1e7], delta in [0,1e6], every draw in [0,delta] (RLX)", "seeds": "start_seed+i: AST data-flow + run of the real function with the heavy parts stubbed"},
        outside=["tick rates not in the per-rate list for the exact on-grid / idempotence clauses (the list is in the evidence)", "the CSV text <-> float conversion of cells (CPython C code, M8)",
                 "multiprocessing.Pool dispatch of sensitivity-sample (only the per-task function is analysed)"],
        assumptions=["M10 RLX relative-error model, strengthened with monotonicity of rounding (sound for round-to-nearest)", "M4: rng.uniform(0, delta) returns a value in [0, delta]"],
        explanation=("Engine B: the statements that compute `snapped` and `jittered` are extracted from tools.py with ast and evaluated path by path over the RLX domain: snap never moves an "
                     "arrival up, moves it by less than one tick, leaves on-grid times (k/tps) unchanged and is idempotent (unsat for every listed rate); a bit-exact FPX search produces "
                     "counterexamples when a proof fails (0.29@100 on the unrepaired tree).  jitter: result in [a, a+delta] for any draw in [0, delta].  Real snap/jitter/_sensitivity_task "
                     "are run on small traces to validate the translation and to check that every other column, the row grouping and the sort order are preserved."))
