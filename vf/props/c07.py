from vf.props.common import *


def spec(tier):
    th = tier == "thorough"
    obs = []
    algos = [("naive", 2, False), ("priority", 1, False), ("priority-pool", 2, False), ("overbook", 1, True), ("starter", 1, False)]
    pipes = [pipe("diamond", prio=3, at=0, durs=[1, "da", 1, 1], mems=[1, "ma", 2, 1]), pipe("fanout3", prio=2, at=1, durs=[1, 2, 1], mems=[1, "mb", 1]),
             pipe("single", prio=1, at=2, durs=[2])]
    modes = ("desc", "scramble", "alt", "rand") if th else ("desc", "scramble")
    for algo, pools, oc in algos:
        for multi in (True, False):
            if algo == "priority-pool" and not multi:
                continue
            for mode in modes:
                cfg = dict(algo=algo, pools=pools, oc=oc, multi=multi, duration=10, pipes=pipes)
                sym = dict(cpus=I(1, 6), ma=I(1, 9), mb=I(1, 9))
                obs.append(CH(name=f"ids_{algo}_{'multi' if multi else 'single'}_{mode}", harness="rsim.id_independence", sym=sym,
                              fixed=dict(cfg=cfg, mode=mode, cstart=7, ram=8 if oc else 30, da=2), timeout=1500, native_points=6))
    # the process-wide container counter: same identifiers, symbolic starting value of the counter (ids such as c9/c10
    # straddle a digit boundary for some values), overcommitted pool with possibly tied OOM scores
    cfgc = dict(algo="overbook", pools=1, oc=True, multi=False, duration=8,
                pipes=[pipe("fanout3", prio=3, at=0, durs=[1, 3, 3], mems=[1, "ma", "mb"]), pipe("tworoots2", prio=2, at=1, durs=[3, 3], mems=["ma", "mb"])])
    for (lo, hi) in ((2, 4), (5, 7), (8, 9), (10, 11)):
        obs.append(CH(name=f"ids_overbook_counter_{lo}", harness="rsim.id_independence", sym=dict(cstart=I(lo, hi), ma=I(1, 6), mb=I(1, 6)),
                      fixed=dict(cfg=cfgc, mode="asc", cpus=6, ram=8, da=1), timeout=1500, native_points=4))
    # same run before and after an unrelated simulation in the same process
    for algo, pools, oc in algos:
        cfg = dict(algo=algo, pools=pools, oc=oc, multi=True, duration=8, pipes=pipes[:2])
        other = dict(algo="priority", pools=1, multi=True, duration=6, pipes=[pipe("chain3", prio=1, at=0, durs=[1, 1, 1]), pipe("single", prio=3, at=1, durs=[3])])
        obs.append(CH(name=f"back_to_back_{algo}", harness="rsim.back_to_back", sym=dict(cpus=I(1, 6), ma=I(1, 9)),
                      fixed=dict(cfg=cfg, other=other, ram=8 if oc else 30, da=1, mb=3), timeout=1200, native_points=4))
    # ... and with the real WorkloadGenerator: run B in a fresh copy of the package vs. after run A (other tick rate / seed /
    # scheduler) - state kept on module-level or shared objects across runs shows here
    for (ab, bb) in (((1, 1), (1, 1)), ((0, 0), (1, 1)), ((3, 3), (1, 1)), ((1, 1), (3, 3))) if th else (((1, 1), (1, 1)),):
        for tb in ((2, 5) if th else (5,)):
            for ta in (range(1, 9) if th else (1, 2, 4)):       # one obligation per earlier tick rate (they run in parallel)
                obs.append(CH(name=f"generated_history_a{ab[0]}_b{bb[0]}_tps{ta}_{tb}", harness="hist.generated_history",
                              sym=dict(cpus=I(10, 40)),      # (the seeds stay concrete: numpy's SeedSequence rejects a symbolic int)
                              fixed=dict(tps_a=ta, tps_b=tb, seed_a=3, seed_b=7, algo_a=ab[0], algo_b=bb[0]), timeout=900, native_points=3))
    # the generated workload depends only on workload parameters, tick rate and seed
    for seed in ((1, 7, 42) if th else (7,)):
        for tps in (1, 10):
            obs.append(CH(name=f"workload_indep_seed{seed}_tps{tps}", harness="c15.workload_independence",
                          sym=dict(pools=I(1, 9), cpus=I(1, 128), ram=I(1, 512), multi=B, oc=B, algo_i=I(0, 4)),
                          fixed=dict(seed=seed, tps=tps), timeout=600, group=f"wi{tps}"))
    obs.append(CH(name="seed_passthrough", harness="c15.seed_passthrough", sym=dict(seed=I(0, 2 ** 31)), fixed={}, timeout=120, group="wi1"))
    # the clause "in a fresh process under a different hash seed": native differential runs in fresh interpreter processes
    obs.append(KN(name="hashseed_processes", func="vf.kernels.c07:hashseed_processes", args=dict(tier=tier), timeout=900))
    cfg = dict(algo="priority", pools=1, multi=True, duration=10, pipes=pipes)
    for w in ("suspend", "fail", "ok"):
        obs.append(twin(f"ids_{w}", "rsim.id_independence", dict(cpus=I(1, 6), ma=I(1, 9)), dict(cfg=cfg, mode="desc", cstart=7, ram=30, da=2, mb=3), w))
    for w in ("query_work", "completed", "history_ran"):
        obs.append(twin(f"generated_history_{w}", "hist.generated_history", dict(cpus=I(10, 40)),
                        dict(tps_a=2, tps_b=5, seed_a=3, seed_b=7, algo_a=1, algo_b=1), w))
    obs.append(twin("workload_indep", "c15.workload_independence", dict(pools=I(1, 9)), dict(seed=7, tps=1, cpus=2, ram=3, multi=False, oc=True, algo_i=3), "x"))
    return PropSpec(
        property_id="C07", obligations=obs,
        functions=["run_simulator", "Scheduler.__init__", "all shipped schedulers", "Executor.run_one_tick", "Segment / WorkloadGenerator module state (fresh package import vs. after a history)", "Container.__init__ (global container counter)", "Node.__init__ (uuid4 identifiers)",
                   "WorkloadGenerator.__init__", "WorkloadGenerator.generate_pipelines", "WorkloadGenerator.run_one_tick"],
        bounds={"identifier_assignments": "ascending (reference) vs " + ", ".join(modes) + " integer-valued UUIDs; container counter starting at 1 vs 7",
                "pipelines": 3, "ticks": 10, "cpus_per_pool": "1..6", "generator_ticks": 40},
        outside=["the clause 'a fresh process under a different PYTHONHASHSEED' as a solver question: interpreter-level hash randomisation is not a solver variable; the identifier-order model covers the mechanism "
                 "(iteration order of sets/dicts keyed by identifiers) symbolically, and obligation hashseed_processes adds native differential runs in fresh processes under 4 (8) hash seeds - concrete runs, not a solver verdict",
                 "'different seeds give different workloads': a property of numpy's PCG64, outside the code; the harness shows the seed reaches default_rng unchanged"],
        assumptions=A_ASSUME + ["M6 identifiers: uuid.uuid4 inside eudoxia.utils.dag is replaced by a stub that hands out UUIDs in a chosen order; the family of orders is concrete (listed in bounds)"],
        explanation=("2-safety by self-composition under CrossHair+z3: the real run_simulator is run twice inside one path on the same scripted branching workload with symbolic pool size and "
                     "memory demands - once with ascending identifiers, once with a different identifier order and container-counter start - and the canonicalised tick-by-tick logs "
                     "(arrivals, decisions, results) and the statistics must be identical; likewise before/after an unrelated simulation.  The generator is run with symbolic "
                     "scheduler/executor settings next to a reference and must produce the identical workload; the seed must reach numpy unchanged."))
