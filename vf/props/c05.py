from vf.props.common import *


def spec(tier):
    th = tier == "thorough"
    obs = []
    F = lambda k: {f"r{k}": 0}      # fixed-memory slot: read 0 unless symbolic
    # A1: container run vs oracle.  layout = operators -> segment slots
    layouts = {"1op_1seg": [[0]], "2op": [[0], [1]], "1op_2seg": [[0, 1]]}
    if th:
        layouts.update({"2op_2seg_first": [[0, 1], [2]], "3op": [[0], [1], [2]], "2op_2seg_last": [[0], [1, 2]],
                        "2op_2x2": [[0, 1], [2, 3]], "4op": [[0], [1], [2], [3]]})
    RMAX = 65 if th else 45
    # assigned order: independent operators / two chains (0->2, 1->3) assigned in an order that differs from the order of
    # creation and of DAG iteration; the container runs them in the assigned order (OOM tick, completed prefix / failed suffix)
    osym = dict(alloc=I(1, 6), d0=I(0, 2), m0=I(0, 7), d1=I(0, 2), m1=I(0, 7), m2=I(0, 7))
    for nm, lay, perm, ch in (("rev2", [[0], [1]], [1, 0], False), ("rot3", [[0], [1], [2]], [2, 0, 1], False),
                              ("chains", [[0], [1], [2], [1]], [0, 2, 1, 3], True)) + ((("chains_b", [[0], [1], [2], [0]], [1, 3, 0, 2], True),) if th else ()):
        obs.append(CH(name=f"run_assigned_order_{nm}", harness="c05.container_run", sym=osym if len(lay) > 2 else {k: v for k, v in osym.items() if k != "m2"},
                      fixed=dict(layout=lay, perm=perm, chains=ch, d2=1), timeout=900))
    for name, lay in layouts.items():
        nslots = max(max(op) for op in lay) + 1
        # (a) fixed-memory segments with symbolic durations (incl. 0 ticks) and memory
        sym = dict(alloc=I(1, 6))
        for k in range(nslots):
            sym[f"d{k}"] = I(0, 2)
            sym[f"m{k}"] = I(0, 7)
        if nslots <= 3:
            obs.append(CH(name=f"run_fixed_{name}", harness="c05.container_run", sym=sym, fixed=dict(layout=lay), timeout=900))
        else:
            for d0 in (0, 1, 2):
                s2 = dict(sym)
                s2.pop("d0")
                obs.append(CH(name=f"run_fixed_{name}_d{d0}", harness="c05.container_run", sym=s2, fixed=dict(layout=lay, d0=d0), timeout=1800))
        # (b) growing-memory segments: read sizes symbolic (any integer GB, so partial ticks), CPU time symbolic
        if nslots == 1:
            obs.append(CH(name=f"run_growing_{name}", harness="c05.container_run",
                          sym=dict(alloc=I(1, RMAX + 5), r0=I(0, RMAX), d0=I(0, 2)), fixed=dict(layout=lay), timeout=900))
        elif nslots == 2 or th:
            # one condition per number of I/O ticks of the first slot keeps each condition small
            for (lo, hi) in ((0, 19), (20, 39), (40, RMAX)):
                sym = dict(alloc=I(1, RMAX + 5), r0=I(lo, hi), d0=I(0, 1), r1=I(0, RMAX), d1=I(0, 1))
                fixed = dict(layout=lay)
                for k in range(2, nslots):
                    fixed[f"m{k}"] = 3
                    fixed[f"d{k}"] = 1
                obs.append(CH(name=f"run_growing_{name}_r{lo}", harness="c05.container_run", sym=sym, fixed=fixed, timeout=1800 if th else 900))
        # (c) mixed: slot 0 growing, slot 1 fixed
        if nslots >= 2:
            for (lo, hi) in ((0, 19), (20, RMAX)):
                sym = dict(alloc=I(1, 50), r0=I(lo, hi), d0=I(0, 1), d1=I(0, 2), m1=I(0, 51))
                fixed = dict(layout=lay)
                for k in range(2, nslots):
                    fixed[f"m{k}"] = 3
                    fixed[f"d{k}"] = 1
                obs.append(CH(name=f"run_mixed_{name}_r{lo}", harness="c05.container_run", sym=sym, fixed=fixed, timeout=1800 if th else 900))
    # the same at 2 and 4 ticks per second (binary64 still exact: tick length 0.5 / 0.25)
    for tp in (2, 4):
        obs.append(CH(name=f"run_growing_tps{tp}", harness="c05.container_run", sym=dict(alloc=I(1, 50), r0=I(0, 45), d0=I(0, 1)),
                      fixed=dict(layout=[[0]], tps=tp, K=24), timeout=900))
        obs.append(CH(name=f"run_mixed_tps{tp}", harness="c05.container_run", sym=dict(alloc=I(1, 30), r0=I(0, 25), d0=I(0, 1), d1=I(0, 1), m1=I(0, 31)),
                      fixed=dict(layout=[[0], [1]], tps=tp, K=24), timeout=900))
    tsym = dict(alloc=I(1, 50), r0=I(0, 45), d0=I(0, 2), d1=I(0, 2), m1=I(0, 51))
    for w in ("oom", "success", "zero"):
        obs.append(twin(f"run_{w}", "c05.container_run", tsym, dict(layout=[[0], [1]]), w))
    # B: float kernels (tick counts, scaling laws, memory growth, OOM tick) for all tick rates
    for law in ("const", "linear3", "linear7", "squared", "exp", "sqrt", "log"):
        obs.append(KN(name=f"cpu_ticks_{law}", func="vf.kernels.c05:cpu_ticks", args=dict(law=law, tier=tier), timeout=900 if th else 300))
    obs.append(KN(name="io_ticks", func="vf.kernels.c05:io_ticks", args=dict(tier=tier), timeout=600))
    obs.append(KN(name="growth", func="vf.kernels.c05:growth", args=dict(tier=tier), timeout=600))
    return PropSpec(
        property_id="C05", obligations=obs,
        functions=["Container._tick_generator", "Container.tick", "Container.kill", "Container.set_current_memory_usage",
                   "Segment.get_io_seconds", "Segment.get_cpu_time", "Segment.get_peak_memory_gb", "ScalingFuncs.*",
                   "ResourcePool.run_one_tick", "ResourcePool._run_out_of_memory_killer"],
        bounds={"operators": "1..4" if th else "1..3", "segments_per_operator": "1..2", "ticks_per_segment": "0..2 CPU + 0..3 I/O (read <= 65 GB)",
                "scenario_tick_rate": "1 (all layouts), 2 and 4 (growing / mixed)", "kernel_tick_rate": "1..100000 (symbolic, RLX) / {1,10,100,1000,100000} (FPX)",
                "kernel_sizes": "read, baseline in [0, 2^20]", "cpus": "1..256 (sqrt/log: table 1..64)"},
        outside=["user-supplied (callable) scaling functions", "tick rates above 100000, sizes above 2^20", "more than 4 operators / 2 segments per operator in the scenario harness"],
        assumptions=A_ASSUME + ["M7 np.log/np.sqrt evaluated with the real numpy on the concrete CPU counts 1..64; the division and the tick conversion are encoded",
                               "M10 RLX: every float operation has relative error <= 2^-53 (normal range asserted)"],
        explanation=("Engine A: CrossHair+z3 runs one real container in a real pool tick by tick against an independent oracle (vf/oracle.py) for per-tick memory, "
                     "operator states, suspendable flag, the OOM tick and the completion tick, with symbolic read sizes, CPU seconds, fixed memory and allocation. "
                     "Engine B: the tick-count and memory-growth expressions are extracted from the current source with ast and checked against the documented "
                     "formulas for every tick rate: RLX (relative-error model over the reals) unsat = holds for all inputs in range; FPX (bit-exact binary64) searches "
                     "for counterexamples, which are replayed on the real functions."))
