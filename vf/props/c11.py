from vf.props.common import *


def spec(tier):
    th = tier == "thorough"
    obs = []
    R = 12          # all-symbolic sizes (cubic score comparisons): beyond ~12 z3 starts answering unknown on some paths
    RB = 24         # memory range when the allocations are concrete
    for n in (2, 3):
        for dur0 in (3, 1):
            sym = dict(cap=I(1, 2 * R))
            for i in range(n):
                sym[f"m{i}"] = I(0, R)
                sym[f"r{i}"] = I(1, R)
            fixed = dict(n=n, dur0=dur0)
            for i in range(n, 4):
                fixed[f"m{i}"] = 0
                fixed[f"r{i}"] = 1
            if n >= 3:
                for (lo, hi) in ((1, R // 2), (R // 2 + 1, R), (R + 1, 2 * R)):
                    s2 = dict(sym)
                    s2["cap"] = I(lo, hi)
                    obs.append(CH(name=f"killer_n{n}_d{dur0}_cap{lo}", harness="c11.oom_killer", sym=s2, fixed=fixed,
                                  timeout=1800 if th else 900))
            else:
                obs.append(CH(name=f"killer_n{n}_d{dur0}", harness="c11.oom_killer", sym=sym, fixed=fixed, timeout=900))
    if th:
        # four containers: allocations concrete per partition (with all eight sizes symbolic the cubic score
        # comparisons make z3 answer unknown on some paths), memory demands and capacity symbolic
        for ri, rs in enumerate(((10, 10, 10, 10), (5, 10, 20, 24), (24, 12, 6, 3), (8, 8, 16, 16), (3, 7, 11, 13))):
            for dur0 in (3, 1):
                for (lo, hi) in ((1, 16), (17, 32), (33, 48)):
                    sym = dict(cap=I(lo, hi), m0=I(0, RB), m1=I(0, RB), m2=I(0, RB), m3=I(0, RB))
                    fixed = dict(n=4, dur0=dur0, r0=rs[0], r1=rs[1], r2=rs[2], r3=rs[3])
                    obs.append(CH(name=f"killer_n4_r{ri}_d{dur0}_cap{lo}", harness="c11.oom_killer", sym=sym, fixed=fixed, timeout=2400))
    if th:
        for ri, rs in enumerate(((12, 12, 12), (6, 12, 24), (24, 8, 3))):
            for dur0 in (3, 1):
                sym = dict(cap=I(1, 60), m0=I(0, RB), m1=I(0, RB), m2=I(0, RB))
                obs.append(CH(name=f"killer_n3_r{ri}_d{dur0}", harness="c11.oom_killer", sym=sym,
                              fixed=dict(n=3, dur0=dur0, r0=rs[0], r1=rs[1], r2=rs[2], m3=0, r3=1), timeout=2400))
    tsym = dict(cap=I(1, 24), m0=I(0, 12), r0=I(1, 12), m1=I(0, 12), r1=I(1, 12), m2=I(0, 12), r2=I(1, 12))
    tfix = dict(n=3, dur0=3, m3=0, r3=1)
    for w in ("two_victims", "one_victim", "tie", "over_and_pool"):
        obs.append(twin(f"killer_{w}", "c11.oom_killer", tsym, tfix, w, timeout=120))
    return PropSpec(
        property_id="C11", obligations=obs,
        functions=["ResourcePool._run_out_of_memory_killer", "ResourcePool.run_one_tick", "Container.kill", "Container._mark_completed",
                   "Container.set_current_memory_usage"],
        bounds={"containers": "2..3 (all sizes symbolic)" + (" + 4 (five concrete allocation tuples, memory and capacity symbolic)" if th else ""),
                "memory_and_allocation_gb": f"0..{R} (0..{RB} with concrete allocations)", "capacity": f"1..{2*R} (..60)"},
        outside=["more than 4 containers", "non-integral sizes (scores of integral sizes differ by >= 1e-3 relative, far above binary64 rounding)",
                 "growing-memory profiles crossing capacity at fractional ticks (per-tick demand comes from C05's model)"],
        assumptions=A_ASSUME + ["scores are compared cross-multiplied (m_i^2 r_j > m_j^2 r_i) in the harness; the code's m*(m/r) runs under M1"],
        explanation=("CrossHair+z3 over the real overcommitted pool: n containers with symbolic fixed memory, allocations and pool capacity start together; the set of containers the "
                     "real OOM killer fails is compared with the statement: over-limit ones always, finished / zero-usage ones never, no victim while a strictly higher score survives, "
                     "usage fits afterwards, and the lowest-scored victim was needed (non-linear integer constraints decided by z3)."))
