import itertools
from vf.props.common import *


def spec(tier):
    th = tier == "thorough"
    obs = []
    # structure symbolic (DAG, priorities, memory kinds), laws / numeric cells by symbolic menu index
    for n1 in ((1, 2, 3, 4) if th else (3, 4)):
        nb = n1 * (n1 - 1) // 2
        for k0 in ((0, 1, 2) if (th or n1 == 3) else (1,)):
            sym = {f"e{i}": B for i in range(nb)}
            if n1 <= 3 or th:
                sym.update(prio1=I(1, 3), k1=I(0, 2))
            fixed = dict(n1=n1, n2=2, prio1=2, prio2=1, l0=0, l1=3, l2=2, l3=6, k0=k0, k1=0, k2=1, k3=2, v0=3, v1=5, v2=8, v3=0, arr1=4, arr2=4)
            for k in sym:
                fixed.pop(k, None)
            for i in range(nb, 6):
                fixed[f"e{i}"] = False
            obs.append(CH(name=f"dag_n{n1}_mem{k0}", harness="c14.write_read", sym=sym, fixed=fixed, timeout=1800 if th else 900))
    # laws and numeric values: every law / menu value for a fixed diamond
    diamond = dict(e0=True, e1=True, e2=False, e3=False, e4=True, e5=True)
    base = dict(n1=4, n2=1, prio1=3, prio2=2, l0=0, l1=4, l2=1, l3=5, k0=2, k1=0, k2=1, k3=2, v0=3, v1=1, v2=6, v3=7, arr1=2, arr2=4, **diamond)

    def vals(name, sym, timeout=900):
        f = dict(base)
        for k in sym:
            f.pop(k)
        obs.append(CH(name=name, harness="c14.write_read", sym=sym, fixed=f, timeout=timeout))
    vals("values_cells", dict(v0=I(0, 15), k0=I(0, 2)))
    vals("values_cells_b", dict(v2=I(0, 15), k2=I(0, 2)))
    vals("values_laws", dict(l0=I(0, 6), l1=I(0, 6)))
    vals("values_arrivals", dict(arr1=I(0, 15), arr2=I(0, 15)))
    vals("values_priorities", dict(prio1=I(1, 3), prio2=I(1, 3)))
    # through WorkloadTraceGenerator.generate_rows (the writer's entry point) with a scripted workload; the pipelines' own ids may coincide
    for sid in (True, False):
        f = dict(base)
        for k in ("e0", "e1", "e2", "prio1", "n1"):
            f.pop(k)
        obs.append(CH(name=f"via_generator_same_id{int(sid)}", harness="c14.write_read", sym=dict(e0=B, e1=B, e2=B, prio1=I(1, 3), gen_t1=I(0, 3), gen_t2=I(0, 3)),
                      fixed=dict(f, n1=3, n2=2, same_id=sid), timeout=900))
    tsym = dict(e0=B, e1=B, e2=B, prio1=I(1, 3), k0=I(0, 2))
    tfix = dict(n1=3, n2=1, prio2=1, l0=0, l1=3, l2=2, l3=6, k1=0, k2=1, k3=2, v0=3, v1=5, v2=8, v3=0, arr1=4, arr2=4, e3=False, e4=False, e5=False)
    for w in ("multiparent", "multiroot", "mem0"):
        obs.append(twin(f"roundtrip_{w}", "c14.write_read", tsym, tfix, w))
    for kind in range(14):
        obs.append(CH(name=f"malformed_kind{kind}", harness="c14.malformed", sym=dict(row=I(0, 5)), fixed=dict(kind=kind), timeout=300, group="malformed"))
    obs.append(twin("malformed_control", "c14.malformed", dict(row=I(0, 5)), dict(kind=7), "control"))
    return PropSpec(
        property_id="C14", obligations=obs,
        functions=["CSVWorkloadReader._parse_row", "CSVWorkloadReader.batch_by_pipeline", "CSVWorkloadReader.create_pipeline_from_batch",
                   "WorkloadTraceGenerator._pipeline_to_rows", "CSVWorkloadWriter.write_row", "Pipeline.new_operator", "DAG.add_node", "Segment.__init__"],
        bounds={"operators": "<= 4 (first pipeline, arbitrary DAG) + a chain", "numeric_cells": "menu of 16 values incl. 0, 1e-9, 1e300, 5e-324, 123456789.125, DBL_MAX, DBL_MIN and four doubles that need 16-17 significant digits", "laws": 7},
        outside=["numeric values outside the menu (decimal text <-> binary64 conversion is CPython C code: M8)", "pipelines with more than 4 operators"],
        assumptions=A_ASSUME + ["M8 numeric cells come from a concrete menu selected by a symbolic index; the DAG, priority and memory-kind dimensions are symbolic"],
        explanation=("CrossHair+z3 over the real writer and reader: a pipeline with a symbolic DAG (edge bit per pair), symbolic priority, per-operator law, memory set/0/unset and numeric "
                     "cells is written with WorkloadTraceGenerator/CSVWorkloadWriter, read back with CSVWorkloadReader and compared field by field; the text is then written again and "
                     "compared row by row; seven kinds of format violation injected at a symbolic row must make loading fail."))
