from vf.props.common import *


def spec(tier):
    th = tier == "thorough"
    obs = []
    algos = [("naive", 1, False), ("priority", 1, False), ("priority-pool", 2, False), ("overbook", 1, True)]
    patterns = {
        "mixed": [pipe("chain3", prio=3, at=0, durs=[1, "da", 1], mems=[1, "ma", 1]), pipe("single", prio=1, at=2, durs=[2]),
                  pipe("chain2", prio=2, at=1, durs=[1, "db"])],
        "nothing_arrives": [pipe("single", prio=1, at=99, durs=[1])],
        "nothing_finishes": [pipe("chain2", prio=3, at=0, durs=[40, 1]), pipe("single", prio=2, at=1, durs=[40])],
        "one_class": [pipe("chain2", prio=3, at=0, durs=[1, "da"], mems=["ma", 1]), pipe("tworoots2", prio=3, at=0, durs=[2, 1]),
                      pipe("single", prio=3, at=3, durs=["db"])],
        "fork": [pipe("fanout3", prio=3, at=0, durs=[1, "da", 1], mems=[1, "ma", 1]), pipe("fanin3", prio=1, at=1, durs=[1, 2, "db"])],
    }
    durations = (10, 1, 16) if th else (10,)
    for algo, pools, oc in algos:
        for multi in (True, False):
            if algo == "priority-pool" and not multi:
                continue
            for pname, pp in patterns.items():
                if not th and pname in ("one_class",) and algo not in ("priority", "naive"):
                    continue
                if not th and not multi and pname not in ("mixed", "fork"):
                    continue
                for dur in durations:
                    cfg = dict(algo=algo, pools=pools, oc=oc, multi=multi, duration=dur, pipes=pp)
                    sym = dict(cpus=I(1, 24 if th else 12), ma=I(1, 8), da=I(1, 3 if th else 2), db=I(1, 3 if th else 2))
                    obs.append(CH(name=f"recount_{algo}_{'multi' if multi else 'single'}_{pname}_d{dur}", harness="rsim.stats_recount",
                                  sym=sym, fixed=dict(cfg=cfg, ram=30), timeout=1200))
    # the same decisions with is_resume=True on re-assignments of a pipeline (external / custom schedulers set the flag): counters unchanged
    for algo, multi in (("resumeflag:priority", False), ("resumeflag:priority", True)) + ((("resumeflag:naive", False), ("resumeflag:overbook", False)) if th else ()):
        cfg = dict(algo=algo, pools=1, oc=algo.endswith("overbook"), multi=multi, duration=10, pipes=patterns["mixed"])
        obs.append(CH(name=f"recount_{algo.replace(':', '_')}_{'multi' if multi else 'single'}", harness="rsim.stats_recount",
                      sym=dict(cpus=I(1, 12), ma=I(1, 8), da=I(1, 2)), fixed=dict(cfg=cfg, ram=30, db=1), timeout=1200))
    # runs that end while a suspension is still writing out (large pool => multi-tick write-outs)
    pend = [pipe("chain2", prio=3, at=0, durs=[1, 4]), pipe("single", prio=1, at="ta", durs=[2]), pipe("chain2", prio=2, at=0, durs=["da", 3])]
    for dur in (2, 3, 4, 6):
        cfg = dict(algo="priority", pools=1, multi=True, duration=dur, pipes=pend)
        obs.append(CH(name=f"recount_suspension_at_end_d{dur}", harness="rsim.stats_recount", sym=dict(cpus=I(1, 4), ta=I(0, 3), da=I(1, 2)),
                      fixed=dict(cfg=cfg, ram=600, ma=1, db=1), timeout=600, group="sus_end"))
    # very short runs: fewer ticks than anything needs (0 and 1 ticks)
    for dur in (0.5, 1, 2):
        cfg = dict(algo="priority", pools=1, multi=True, duration=dur, pipes=patterns["mixed"])
        obs.append(CH(name=f"recount_short_d{dur}", harness="rsim.stats_recount", sym=dict(cpus=I(1, 12), ma=I(1, 8)),
                      fixed=dict(cfg=cfg, ram=30, da=1, db=1), timeout=300, group="short"))
    # uncontended chain takes exactly the ticks it needs
    for algo in ("naive", "priority", "priority-pool", "overbook"):
        for multi in (True, False):
            if algo == "priority-pool" and not multi:
                continue
            if algo == "overbook" and multi:
                continue
            obs.append(CH(name=f"uncontended_{algo}_{'multi' if multi else 'single'}", harness="rsim.uncontended",
                          sym=dict(d0=I(1, 3), d1=I(1, 3), d2=I(1, 3)),
                          fixed=dict(algo=algo, multi=multi, n=3, m=1, cpus=4, ram=40), timeout=900))
    # ... also with two-segment operators whose trailing segment may last a positive time that rounds to zero ticks
    for algo, multi in (("priority", True), ("naive", False)) + ((("priority-pool", True), ("overbook", False)) if th else ()):
        obs.append(CH(name=f"uncontended_tails_{algo}", harness="rsim.uncontended", sym=dict(d0=I(1, 2), d1=I(1, 2), t0=I(0, 25), t1=I(0, 25)),
                      fixed=dict(algo=algo, multi=multi, n=2, d2=1, m=1, cpus=4, ram=40), timeout=900))
    cfg = dict(algo="priority", pools=1, multi=True, duration=10, pipes=patterns["mixed"])
    tsym = dict(cpus=I(1, 12), ma=I(1, 8))
    for w in ("completed", "fail", "suspend", "empty_class"):
        obs.append(twin(f"recount_{w}", "rsim.stats_recount", tsym, dict(cfg=cfg, ram=30, da=1, db=1), w))
    return PropSpec(
        property_id="C06", obligations=obs,
        functions=["run_simulator", "compute_pipeline_stats", "SimulatorStats", "PipelineRuntimeStatus.record_arrival/record_finish/get_latency_ticks",
                   "PipelineRuntimeStatus.is_pipeline_successful", "Executor.num_completed", "Scheduler.run_one_tick", "all shipped schedulers"],
        bounds={"pipelines": "<= 3", "ticks": "0..14", "cpus_per_pool": "1..12", "arrival_ticks": "concrete per pattern (latency lists cross into numpy)"},
        outside=["generated workloads (C15 covers the generator)", "runs longer than 14 ticks", "container-level p99_latency (not part of the statement)"],
        assumptions=A_ASSUME + ["np.mean / np.percentile receive concrete latency lists (arrival ticks are concrete per partition)"],
        explanation=("CrossHair+z3 runs the real run_simulator on scripted workloads with symbolic pool size, memory demand (OOM/retry histories) and durations; a recorder wrapped "
                     "around the real scheduler and executor observes arrivals, decisions and every tick's results, and the returned SimulatorStats must equal an independent "
                     "recount (completion tick = tick in which the last operator completed, latency, per-class partition, mean/p99 by a written-out percentile, throughput, "
                     "assignment/suspension/failure/error counters); a lone chain must finish in exactly the ticks its operators need."))
