from vf.props.common import *

Z = ("float", -4.0, 4.0)


def spec(tier):
    th = tier == "thorough"
    obs = []
    prob_sets = [(1.0, 0.0, 0.0), (0.0, 1.0, 0.0), (0.0, 0.0, 1.0), (0.5, 0.5, 0.0), (0.3, 0.1, 0.6), (0.498, 0.004, 0.498)]
    # (npipes, nops, tps, wmean, K): wmean*tps = mean ticks between events
    plans = [(1, 2, 1, 3.0, 8), (2, 1, 1, 1.0, 4), (1, 3, 2, 0.25, 3), (1, 1, 4, 1.0, 7)]
    if th:
        plans += [(2, 2, 1, 8.0, 6), (1, 4, 1, 2.0, 5), (3, 1, 2, 0.5, 3), (1, 2, 4, 0.1, 3)]
    for pi, (npipes, nops, tps, wmean, K) in enumerate(plans):
        for qi, probs in enumerate(prob_sets):
            if not th and qi in (0, 3, 5) and pi > 0:
                continue
            # the operator-count draw is split into ranges (1-2 operators / 3+ operators) to keep conditions small
            for (clo, chi) in ((-4.0, 1.9), (2.0, 4.0)):
                if clo > 0 and not th:
                    continue
                sym = dict(c0=I(0, 2), zc0=("float", clo, chi), zp0=Z, zg0=Z)
                fixed = dict(tps=tps, wmean=wmean, npipes=npipes, nops=nops, ratio=0.5, probs=list(probs), K=K)
                if npipes >= 2:
                    sym["c1"] = I(0, 2)
                    sym["zc1"] = ("float", -4.0, 1.9)
                if npipes >= 3:
                    sym["c2"] = I(0, 2)
                if clo > 0 or nops >= 3:
                    sym["zp1"] = Z
                if th and (clo > 0 and nops == 3):
                    sym["zp2"] = Z
                if (nops >= 3 and not th) or (th and clo > 0):
                    for (plo, phi) in ((-4.0, 0.0), (0.0, 4.0)):
                        s2 = dict(sym)
                        s2["zp0"] = ("float", plo, phi)
                        obs.append(CH(name=f"structure_plan{pi}_probs{qi}_c{int(clo)}_p{int(plo)}", harness="c15.gen_structure", sym=s2, fixed=fixed,
                                      timeout=3600 if th else 1200))
                else:
                    obs.append(CH(name=f"structure_plan{pi}_probs{qi}_c{int(clo)}", harness="c15.gen_structure", sym=sym, fixed=fixed, timeout=1200))
    # other ratios
    for ratio in (0.0, 1.0, 0.25):
        obs.append(CH(name=f"structure_ratio{ratio}", harness="c15.gen_structure", sym=dict(c0=I(0, 2), zc0=("float", -4.0, 3.9), zp0=Z, zp1=Z),
                      fixed=dict(tps=1, wmean=4.0, npipes=1, nops=2, ratio=ratio, probs=[0.3, 0.1, 0.6], K=3), timeout=900))
    # raising cpu_io_ratio never makes later operators more I/O heavy
    for (clo, chi, nz) in ((-4.0, 1.9, 1), (2.0, 3.9, 2)) + (((4.0, 4.0, 3),) if th else ()):
        for (lo, hi) in ((0.0, 1.0),):
            sym = dict(r1=("float", lo, hi), r2=("float", lo, hi), zc0=("float", clo, chi))
            for k in range(nz):
                sym[f"zp{k}"] = Z
            obs.append(CH(name=f"ratio_monotone_ops{nz + 1}", harness="c15.ratio_monotone", sym=sym, pre=["r1 <= r2"],
                          fixed=dict(tps=1, nops=2), timeout=1500))
    # the exact boundary values of the ratio (0 and 1 are legal)
    for (r1, r2) in ((0.0, 0.25), (0.0, 1.0), (0.75, 1.0)):
        obs.append(CH(name=f"ratio_boundary_{r1}_{r2}", harness="c15.ratio_monotone", sym=dict(zc0=("float", -4.0, 3.9), zp0=Z, zp1=Z),
                      fixed=dict(tps=1, nops=2, r1=r1, r2=r2), timeout=900))
    tfix = dict(tps=1, wmean=3.0, npipes=1, nops=2, ratio=0.5, probs=[0.3, 0.1, 0.6], K=8)
    obs.append(twin("structure_query", "c15.gen_structure", dict(c0=I(0, 2)), dict(tfix, probs=[0.0, 1.0, 0.0]), "query"))
    obs.append(twin("structure_floor_at_one", "c15.gen_structure", dict(zc0=("float", -4.0, -2.1)), dict(tfix, c0=2), "floor_at_one"))
    obs.append(twin("structure_long_chain", "c15.gen_structure", dict(zc0=("float", 2.0, 4.0), zp0=Z), dict(tfix, c0=2), "long_chain"))
    obs.append(twin("structure_cpu_heavy", "c15.gen_structure", dict(zp0=Z), dict(tfix, c0=2), "cpu_heavy"))
    obs.append(twin("structure_long_gap", "c15.gen_structure", dict(zg0=Z), dict(tfix, c0=1), "long_gap"))
    obs.append(twin("structure_second_event", "c15.gen_structure", dict(zg0=Z), dict(tfix, c0=1), "second_event"))
    obs.append(twin("ratio_strict", "c15.ratio_monotone", dict(r1=("float", 0.0, 1.0), r2=("float", 0.0, 1.0), zc0=("float", -4.0, 1.9), zp0=Z),
                    dict(tps=1, nops=2), "strict"))
    obs.append(KN(name="waiting_ticks", func="vf.kernels.c15:waiting_ticks", args=dict(tier=tier), timeout=300))
    return PropSpec(
        property_id="C15", obligations=obs,
        functions=["WorkloadGenerator.__init__", "WorkloadGenerator.generate_pipelines", "WorkloadGenerator.generate_segment_from_val",
                   "WorkloadGenerator.generate_segment_not_heavy_io", "WorkloadGenerator.generate_query_segment", "WorkloadGenerator.run_one_tick",
                   "Pipeline.new_operator", "Segment.__init__"],
        bounds={"pipelines_per_event": "1..3", "num_operators": "1..4", "ticks": "2..6", "normal_draws": "|z| <= 4 sigma", "tick_rate": "1, 2, 4 (scenario); 1..100000 (kernel)",
                "cpu_io_ratio": "[0,1] symbolic for monotonicity; 0, 0.25, 0.5, 1 for structure"},
        outside=["the distributional clauses (average operator count, average gap, class frequencies): statements about probability distributions, reduced to the functional relations "
                 "checked here (count = max(1, floor(draw)), gap = floor(draw)+1, class = the drawn class)", "normal draws beyond 4 sigma", "numpy's generator itself (replaced by the stub M4)"],
        assumptions=A_ASSUME + ["M4 RNG stub: normal(loc, scale) = loc + scale*z with symbolic z in [-4, 4]; choice returns any element with positive probability"],
        explanation=("CrossHair+z3 runs the real WorkloadGenerator with its numpy generator replaced by a stub whose normal draws and class picks are symbolic; every arrival event is "
                     "checked against the statement (exactly num_pipelines fresh pipelines, query = one operator with the query prototype, otherwise a chain of max(1, floor(draw)) "
                     "operators with one documented prototype each, first one I/O-heavy, later ones selected by cpu_io_ratio + draw; zero-probability classes never appear; gaps = draw+1). "
                     "A 2-run harness shows that raising cpu_io_ratio never makes a later operator more I/O-heavy for the same draws."))
