from vf.props.common import *


def spec(tier):
    th = tier == "thorough"
    obs = []
    for P in (1, 2, 3):
        # routing: symbolic pool numbers incl. out-of-range ones
        obs.append(CH(name=f"routing_P{P}", harness="c09.ledger",
                      sym=dict(q0=I(-1, P + 1), q1=I(-1, P + 1), q2=I(-1, P + 1), sus_pool=I(-1, P + 1)),
                      fixed=dict(P=P, t1=1, t2=1, d0=1, d1=2, d2=1, m0=1, m1=1, m2=1, sus_t=1), timeout=600))
        # outcomes: symbolic durations/memory (OOM), arrival ticks and suspension tick
        for (q1, q2) in ([(0, 0)] + ([(P - 1, 0), (P - 1, P - 1)] if (P > 1 and (th or P == 2)) else [])):
            obs.append(CH(name=f"outcomes_P{P}_q{q1}{q2}", harness="c09.ledger",
                          sym=dict(t1=I(0, 3) if th else I(0, 2), t2=I(0, 4) if th else I(1, 2), d0=I(1, 3) if th else I(1, 2), m0=I(1, 14) if th else I(9, 12), m1=I(1, 14) if th else I(9, 12), sus_t=I(-1, 5) if th else I(-1, 3)),
                          fixed=dict(P=P, q0=0, q1=q1, q2=q2, d1=1, d2=2, m2=1, sus_pool=0, K=9 if th else 7), timeout=2400 if th else 900))
    # success iff all operators completed, for multi-segment operators whose trailing segment may round to zero ticks
    obs.append(CH(name="outcome_states", harness="c09.outcome_states",
                  sym=dict(r0=I(0, 25), d0=I(0, 1), r1=I(0, 25), d1=I(0, 1), dy=I(0, 2), alloc=I(1, 6), my=I(0, 7)), fixed={}, timeout=900))
    # the same with memory overcommit switched on (a container over its own allocation still ends, as a failure)
    obs.append(CH(name="outcome_states_overcommit", harness="c09.outcome_states",
                  sym=dict(r0=I(0, 25), d0=I(0, 1), r1=I(0, 25), d1=I(0, 1), dy=I(0, 2), alloc=I(1, 6), my=I(0, 7)), fixed=dict(oc=True), timeout=900))
    obs.append(CH(name="outcomes_P1_q00_overcommit", harness="c09.ledger",
                  sym=dict(t1=I(0, 2), t2=I(1, 2), d0=I(1, 2), m0=I(9, 12), m1=I(9, 12), sus_t=I(-1, 3)),
                  fixed=dict(P=1, q0=0, q1=0, q2=0, d1=1, d2=2, m2=1, sus_pool=0, K=7, oc=True), timeout=900))
    # pool-level pressure: overcommit on, three containers of 20 GB each in a 40 GB pool, every one within its own
    # allocation while together they may exceed the pool: a pool-level kill ends its victim in that very tick
    for (t1, t2) in ((0, 0), (0, 1), (1, 2)) if th else ((0, 1),):
        obs.append(CH(name=f"pool_pressure_t{t1}{t2}", harness="c09.ledger",
                      sym=dict(m0=I(8, 20), m1=I(8, 20), m2=I(1, 20), d0=I(1, 3), d1=I(1, 2)),
                      fixed=dict(P=1, q0=0, q1=0, q2=0, t1=t1, t2=t2, d2=2, sus_t=-1, sus_pool=0, K=7, oc=True, alloc=20), timeout=1200))
    obs.append(twin("ledger_pool_kill", "c09.ledger", dict(m0=I(8, 20), m1=I(8, 20)),
                    dict(P=1, q0=0, q1=0, q2=0, t1=0, t2=1, d0=2, d1=2, d2=2, m2=15, sus_t=-1, sus_pool=0, K=7, oc=True, alloc=20), "pool_kill"))
    osym = dict(r1=I(0, 25), d1=I(0, 1), alloc=I(1, 6), my=I(0, 7))
    obs.append(twin("outcome_fail", "c09.outcome_states", osym, dict(r0=20, d0=1, dy=1), "fail"))
    obs.append(twin("outcome_zero_tick_tail", "c09.outcome_states", osym, dict(r0=20, d0=1, dy=1), "zero_tick_tail"))
    tsym = dict(q1=I(-1, 3), t1=I(0, 3), d0=I(1, 2), m0=I(1, 12), sus_t=I(-1, 4))
    tfix = dict(P=2, q0=0, q2=1, t2=1, d1=1, d2=2, m1=1, m2=1, sus_pool=0)
    for w in ("bad_pool_rejected", "fail", "ok", "suspension_ended"):
        obs.append(twin(f"ledger_{w}", "c09.ledger", tsym, tfix, w))
    return PropSpec(
        property_id="C09", obligations=obs,
        functions=["Executor.run_one_tick", "ResourcePool.run_one_tick", "Container.*", "Assignment.__init__", "ExecutionResult"],
        bounds={"pools": "1..3", "containers": 3, "ticks": 7, "pool_numbers": "[-1, P+1]"},
        outside=["more than 3 containers / 7 ticks"],
        assumptions=A_ASSUME,
        explanation=("CrossHair+z3 over the real Executor: three assignments with symbolic pool numbers (including numbers that name no pool), start ticks, durations and memory "
                     "demands, plus a suspension at a symbolic tick/pool; an independent ledger checks one container per accepted assignment, one outcome per container in the tick "
                     "it ends, success iff all operators completed, failure = completed prefix + failed suffix, and assignments = successes + failures + suspended + live after every tick."))
