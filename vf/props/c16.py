from vf.props.common import *


def spec(tier):
    th = tier == "thorough"
    obs = []
    K = 14 if th else 12
    prios = [(3, 1, 2), (3, 3, 1), (2, 3, 3), (1, 1, 3)] if th else [(3, 1, 2), (3, 3, 1)]
    for (p1, p2, p3) in prios:
        for shp in (("chain3", "diamond") if th else ("chain3",)):
            cfg = dict(algo="priority-pool", pools=2, multi=True, K=K,
                       pipes=[pipe(shp, prio=p1, at=0, durs=[1, "da", 1, 1], mems=[1, "ma", 1, 1]),
                              pipe("chain2", prio=p2, at="ta", durs=[1, 1], mems=["mb", 1]),
                              pipe("single", prio=p3, at="tb", durs=[2], mems=[1])])
            nm = f"pools_{p1}{p2}{p3}_{shp}"
            obs.append(CH(name=nm + "_cpu", harness="sched.prio_pool", sym=dict(cpus=I(1, 44), ma=I(1, 12), mb=I(1, 12), ta=I(0, 2)),
                          fixed=dict(cfg=cfg, ram=40, tb=1, da=1), timeout=1200))
            obs.append(CH(name=nm + "_ram", harness="sched.prio_pool", sym=dict(ram=I(2, 90), ma=I(1, 12), tb=I(0, 2)),
                          fixed=dict(cfg=cfg, cpus=40, ta=1, da=2, mb=1), timeout=1200))
    # retries under contention: three batch pipelines with different OOM histories share pool 1
    cfgr = dict(algo="priority-pool", pools=2, multi=True, K=14,
                pipes=[pipe("single", prio=3, at=0, durs=[5], mems=["ma"]), pipe("single", prio=3, at="ta", durs=[5], mems=["mb"]),
                       pipe("single", prio=3, at="tb", durs=[4], mems=["ma"])])
    for (lo, hi) in ((10, 19), (20, 29), (30, 40)):
        for (tlo, thi) in ((0, 1), (2, 3), (4, 5)):
            obs.append(CH(name=f"retry_contention_ram{lo}_tb{tlo}", harness="sched.prio_pool",
                          sym=dict(ram=I(lo, hi), ma=I(1, 20), mb=I(1, 20), ta=I(0, 3), tb=I(tlo, thi)),
                          fixed=dict(cfg=cfgr, cpus=40, da=1), timeout=1800))
    cfg = dict(algo="priority-pool", pools=2, multi=True, K=K,
               pipes=[pipe("chain3", prio=3, at=0, durs=[1, 1, 1], mems=[1, "ma", 1]), pipe("chain2", prio=1, at=1, durs=[1, 1], mems=["mb", 1])])
    tsym = dict(cpus=I(1, 44), ma=I(1, 12), mb=I(1, 12))
    for w in ("oom", "retry", "ok"):
        obs.append(twin(f"pools_{w}", "sched.prio_pool", tsym, dict(cfg=cfg, ram=40), w))
    return PropSpec(
        property_id="C16", obligations=obs,
        functions=["priority_pool_scheduler", "init_priority_pool_scheduler", "WaitingQueueJob", "RetryStats", "Executor.run_one_tick"],
        bounds={"pools": 2, "pipelines": 3, "ticks": K, "cpus_per_pool": "1..44", "ram_gb_per_pool": "2..90"},
        outside=["single-operator container mode (the scheduler crashes there on every multi-operator pipeline: known finding under C08/C16)",
                 "more than 3 pipelines", "runs longer than K ticks"],
        assumptions=A_ASSUME,
        explanation=("CrossHair+z3 lock-step simulation of the real priority-pool scheduler on two pools: every assignment (first attempts and OOM retries) goes to pool 0 for "
                     "query/interactive and pool 1 for batch pipelines, no suspension is ever issued, a retry is exactly the failed container's unfinished operators in one "
                     "assignment, and no retry is issued whose doubled request reaches half of the pool."))
