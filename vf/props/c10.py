from vf.props.common import *


def spec(tier):
    th = tier == "thorough"
    obs = []
    K = 12
    for n in (1, 2, 3):
        # the write-out length is split into ranges so that each condition stays small
        for (lo, hi) in ((1, 19), (20, 39), (40, 59), (60, 79)) if (th or n == 2) else ((1, 19), (20, 45)):
            sym = dict(ram=I(lo, hi), s=I(0, 6), d0=I(1, 2), d1=I(1, 2))
            fixed = dict(n=n, s2=-1, dB=3, rB=7, K=K, d2=1)
            if n == 3:
                sym["d2"] = I(1, 2)
                fixed.pop("d2")
            obs.append(CH(name=f"protocol_n{n}_ram{lo}", harness="c10.suspend_protocol", sym=sym, fixed=fixed, timeout=600))
    # the same protocol at 2 and 4 ticks per second (write-out = floor(ram*tps/20) ticks)
    for tp in (2, 4):
        if th:
            obs.append(CH(name=f"protocol_n3_tps{tp}", harness="c10.suspend_protocol", sym=dict(ram=I(1, 45), s=I(0, 9), d0=I(1, 2), d1=I(1, 2), d2=I(1, 2)),
                          fixed=dict(n=3, s2=-1, dB=3, rB=7, K=20, tps=tp), timeout=2400))
        obs.append(CH(name=f"protocol_n2_tps{tp}", harness="c10.suspend_protocol", sym=dict(ram=I(1, 45), s=I(0, 6), d0=I(1, 2), d1=I(1, 2)),
                      fixed=dict(n=2, s2=-1, dB=3, rB=7, K=16, d2=1, tps=tp), timeout=900))
    # second request / bystander timing
    obs.append(CH(name="second_request", harness="c10.suspend_protocol",
                  sym=dict(s=I(0, 5), s2=I(0, 8), ram=I(1, 45)), fixed=dict(n=3, d0=1, d1=2, d2=1, dB=3, rB=7, K=K), timeout=600))
    obs.append(CH(name="bystander", harness="c10.suspend_protocol",
                  sym=dict(s=I(0, 4), dB=I(1, 6), rB=I(1, 60), ram=I(15, 45)), fixed=dict(n=2, d0=2, d1=2, d2=1, s2=-1, K=K), timeout=600))
    # two concurrent write-outs (same or different request ticks, same or different end ticks)
    obs.append(CH(name="two_suspensions", harness="c10.two_suspensions",
                  sym=dict(ramA=I(1, 70), ramB=I(1, 70), cpuA=I(1, 3), cpuB=I(1, 3), dA=I(1, 2), dB=I(1, 2)), fixed=dict(K=8), timeout=900))
    obs.append(CH(name="two_suspensions_one_pipeline", harness="c10.two_suspensions",
                  sym=dict(ramA=I(1, 70), ramB=I(1, 70), dA=I(1, 2), dB=I(1, 2)), fixed=dict(K=8, cpuA=1, cpuB=2, same_pipeline=True), timeout=900))
    obs.append(twin("two_same_tick", "c10.two_suspensions", dict(ramA=I(1, 70), ramB=I(1, 70), dA=I(1, 2), dB=I(1, 2)), dict(cpuA=1, cpuB=2, K=8), "same_tick"))
    tsym = dict(ram=I(1, 45), s=I(0, 6), d0=I(1, 2), d1=I(1, 2))
    tfix = dict(n=2, s2=-1, dB=3, rB=7, K=K, d2=1)
    for w in ("accepted", "rejected", "ended", "resumed"):
        obs.append(twin(f"protocol_{w}", "c10.suspend_protocol", tsym, tfix, w))
    obs.append(KN(name="suspend_ticks", func="vf.kernels.c10:suspend_ticks", args=dict(tier=tier), timeout=900 if th else 300))
    return PropSpec(
        property_id="C10", obligations=obs,
        functions=["Container.suspend_container", "Container.suspend_container_tick", "Container.is_suspended", "Container.can_suspend_container",
                   "Container._tick_generator", "ResourcePool.verify_valid_suspend", "ResourcePool.get_container_by_id", "ResourcePool.run_one_tick",
                   "Assignment.__init__"],
        bounds={"operators": "1..3", "durations": "1..2 ticks", "allocation_gb": "1..79", "request_tick": "0..6 (second request 0..8)", "tick_rate": "1, 2, 4 (scenario); 1..100000 (kernel)"},
        outside=["containers with more than 3 operators", "tick rates other than 1 in the protocol harness (the write-out length for every rate is the kernel obligation)"],
        assumptions=A_ASSUME + ["M10 RLX error model for the kernel"],
        explanation=("CrossHair+z3 over the real pool/container: a Suspend for a container is requested at a symbolic tick of its life (before creation, mid-operator, at each boundary, "
                     "after its end, while already suspending); acceptance must coincide with the documented condition, refusals leave pool and operators untouched, the write-out "
                     "lasts max(1, floor(ram/20)) ticks during which nothing moves, then exactly the allocation is freed once and the remaining operators are assignable and run to "
                     "completion.  Kernel: write_to_disk_ticks extracted from the source, floor(ram/20*tps) with minimum 1 for all rates (RLX proof, FPX search)."))
