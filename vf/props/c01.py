import itertools
from vf.props.common import *


def spec(tier):
    th = tier == "thorough"
    obs = []
    # A1: DAG iteration, every DAG on n nodes
    for n in (1, 2, 3, 4):
        nb = n * (n - 1) // 2
        obs.append(CH(name=f"dag_iter_n{n}", harness="c01.dag_iter", sym={f"e{i}": B for i in range(nb)},
                      fixed=dict(n=n), timeout=120, group="dag_small" if n < 4 else ""))
    # n=5 (1024 DAGs) sharded by the first 4 edge bits; n=6 (32768) by the first 7 (thorough)
    def shard(n, k):
        nb = n * (n - 1) // 2
        for pref in itertools.product((False, True), repeat=k):
            fixed = dict(n=n)
            fixed.update({f"e{i}": pref[i] for i in range(k)})
            tag = "".join("1" if b else "0" for b in pref)
            obs.append(CH(name=f"dag_iter_n{n}_{tag}", harness="c01.dag_iter",
                          sym={f"e{i}": B for i in range(k, nb)}, fixed=fixed, timeout=400 if n == 5 else 900))
    shard(5, 4)
    if th:
        shard(6, 7)
    obs.append(twin("multiparent", "c01.dag_iter", {f"e{i}": B for i in range(6)}, dict(n=4), "multiparent"))
    obs.append(twin("multiroot", "c01.dag_iter", {f"e{i}": B for i in range(6)}, dict(n=4), "multiroot"))

    # A2: the RUNNING request is accepted iff all parents completed (shared with C02's table harness)
    for who in ((0, 1, 2) if th else (2,)):
        for own in (range(6) if th else (1,)):
            obs.append(CH(name=f"running_request_op{who}_from{own}", harness="c02.transition_step",
                          sym=dict(e0=B, e1=B, e2=B, s0=I(0, 5), s1=I(0, 5), s2=I(0, 5)),
                          pre=[f"s{who} == {own}"] + (["not e0"] if not th else []),
                          fixed=dict(n=3, who=who, target=2), timeout=200))
    # A3: arbitrary packing of one container
    def packs(n):
        for r in range(1, n + 1):
            for perm in itertools.permutations(range(n), r):
                yield perm
    ns = (2, 3, 4) if th else (2, 3)
    quick_packs = {(0, 1), (1, 0), (0, 1, 2), (2, 0, 1), (1, 2, 0), (0, 2, 1), (2, 1), (1,)}
    for n in ns:
        nb = n * (n - 1) // 2
        for perm in packs(n):
            if not th and perm not in quick_packs:
                continue
            o = list(perm) + [-1] * (4 - len(perm))
            sym = {f"e{i}": B for i in range(nb)}
            sym["pre_done"] = I(0, n)
            sym["alloc"] = I(1, 3)
            sym["mem"] = I(1, 3)
            fixed = dict(n=n, o0=o[0], o1=o[1], o2=o[2], o3=o[3], d0=1, d1=2)
            for i in range(nb, 6):
                fixed[f"e{i}"] = False
            obs.append(CH(name=f"pack_n{n}_" + "".join(map(str, perm)), harness="c01.container_order",
                          sym=sym, fixed=fixed, timeout=300, group=f"pack{n}_{perm[0]}" if n < 4 else f"pack4_{perm[0]}{len(perm)}"))
    base_pack = dict(n=3, o0=2, o1=0, o2=1, o3=-1, d0=1, d1=2, e3=False, e4=False, e5=False)
    psym = dict(e0=B, e1=B, e2=B, pre_done=I(0, 3), alloc=I(1, 3), mem=I(1, 3))
    obs.append(twin("pack_rejected", "c01.container_order", psym, base_pack, "rejected"))
    obs.append(twin("pack_ran_all", "c01.container_order", psym, dict(base_pack, o0=0, o1=1, o2=2), "ran_all"))
    obs.append(twin("pack_oom", "c01.container_order", psym, dict(base_pack, o0=0, o1=1, o2=2), "oom"))

    # A4: full scheduler+executor simulations on branching DAGs
    shapes = ["diamond", "fanin3", "fanout3", "triangle"] + (["fork4", "chain3", "tworoots2", "tworootskip"] if th else [])
    algos = [("naive", 1, False), ("priority", 1, False), ("priority-pool", 2, False), ("overbook", 1, True), ("starter", 1, False)]
    for algo, pools, oc in algos:
        for multi in (True, False):
            if algo == "priority-pool" and not multi:
                continue    # crashes on every multi-operator pipeline (C08/C16 finding D7), nothing to observe
            for shp in shapes:
                if not th and shp not in ("diamond", "triangle") and algo in ("priority", "priority-pool", "starter"):
                    continue
                cfg = dict(algo=algo, pools=pools, oc=oc, multi=multi, K=12 if th else 10,
                           pipes=[pipe(shp, prio=3, at=0, durs=["da", 1, "db", 1], mems=[1, "ma", 1, 1]),
                                  pipe("single", prio=1, at=2, durs=[2])])
                nm = f"sim_{algo}_{'multi' if multi else 'single'}_{shp}"
                if algo in ("priority", "priority-pool"):
                    # the 10%-of-pool arithmetic of these schedulers multiplies the regions: one size dimension at a time
                    obs.append(CH(name=nm + "_cpu", harness="c01.sim_deps", sym=dict(cpus=I(1, 24 if th else 10), ma=I(1, 12)),
                                  fixed=dict(cfg=cfg, ram=40, da=1, db=2), timeout=400))
                    obs.append(CH(name=nm + "_ram", harness="c01.sim_deps", sym=dict(ram=I(2, 60 if th else 24), ma=I(1, 12)),
                                  fixed=dict(cfg=cfg, cpus=4, da=2, db=1), timeout=400))
                else:
                    obs.append(CH(name=nm, harness="c01.sim_deps",
                                  sym=dict(cpus=I(1, 12), ram=I(2, 40), ma=I(1, 12), da=I(1, 2), db=I(1, 2)),
                                  fixed=dict(cfg=cfg), timeout=400))
    cfg = dict(algo="priority", pools=1, oc=False, multi=True, K=10,
               pipes=[pipe("diamond", prio=3, at=0, durs=["da", 1, "db", 1], mems=[1, "ma", 1, 1]), pipe("single", prio=1, at=2, durs=[2])])
    ssym = dict(cpus=I(1, 12), ram=I(2, 40), ma=I(1, 12))
    for w in ("fail", "ok", "running", "suspend"):
        obs.append(twin(f"sim_{w}", "c01.sim_deps", ssym, dict(cfg=cfg), w, group="twins_sim"))
    return PropSpec(
        property_id="C01", obligations=obs,
        functions=["DAG.add_node", "DAGIterator.__next__", "Pipeline.new_operator", "PipelineRuntimeStatus.check_transition",
                   "PipelineRuntimeStatus.transition", "PipelineRuntimeStatus.get_ops", "Container._tick_generator",
                   "ResourcePool.run_one_tick", "naive_pipeline", "priority_scheduler", "priority_pool_scheduler",
                   "overbook_scheduler", "SCHEDULER_TEMPLATE (starter scheduler)"],
        bounds={"dag_nodes_iteration": 6 if th else 5, "ops_per_container_pack": 4 if th else 3, "sim_ticks": 12 if th else 10,
                "sim_pipelines": 2, "tick_rate": 1},
        outside=["DAGs with more than 6 nodes (iteration) / 4 nodes (scenarios)", "parent lists with repeated entries (not a DAG edge set)",
                 "priority-pool with single-operator containers (crashes before anything runs: see C08/C16)"],
        assumptions=A_ASSUME,
        explanation=("CrossHair+z3 symbolic execution of the real DAG iterator (edge set symbolic: one path per DAG, exhaustive per node count), "
                     "of the RUNNING-transition check from an arbitrary state vector, of one container packed with every operator sequence "
                     "over a symbolic DAG, and of lock-step scheduler+executor simulations (symbolic pool sizes, memory demand, durations) "
                     "for every shipped scheduler and both container modes."))
