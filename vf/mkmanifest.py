"""Regenerates /verif/MANIFEST.json from the property modules (run by hand after editing them)."""
import importlib
import json
import os
import sys

VERIF = os.path.dirname(os.path.dirname(os.path.abspath(__file__)))
sys.path.insert(0, VERIF)

TEXT = {
 "C01": "DAG iteration is exhaustive per node count (one symbolic path per edge set); the start-before-parents rule is decided for every state vector of the RUNNING request, every packing of one container over a symbolic DAG, and bounded lock-step simulations of every shipped scheduler with symbolic pool sizes / memory demands.",
 "C02": "The transition table is decided as a one-step inductive property from an arbitrary state vector (covers histories of any length), plus literal bounded histories, executor-level command sequences and scheduler simulations.",
 "C03": "Conservation invariant asserted after every tick of bounded command sequences with symbolic sizes (incl. zero/negative/oversized), memory demands, durations and suspension tick; every feasible path explored per partition.",
 "C04": "Per-tick memory limits, reported-usage equality and kill justification against an independent demand model for three containers with symbolic demands/allocations/capacity; growth arithmetic for all tick rates by an RLX proof.",
 "C05": "Tick-by-tick equality with an independent oracle for symbolic read sizes / CPU seconds / memory / allocation (scenario, tick rate 1) and RLX proofs of the tick-count and growth formulas extracted from the source for every tick rate and scaling law.",
 "C06": "The real run_simulator's statistics equal an independent recount for every explored path of scripted workloads with symbolic pool size, memory demand and durations.",
 "C07": "Self-composition: two runs differing only in identifier values / container-counter start / preceding history must produce identical logs and statistics on every explored path; the generator is insensitive to symbolic scheduler/executor settings.",
 "C08": "No exception escapes the real run_simulator for any explored path of each shipped scheduler (and the generated starter scheduler) over branching / zero-tick / oversized workloads with symbolic pool sizes; validation arithmetic by RLX proofs.",
 "C09": "Independent ledger over symbolic pool numbers (including non-existent pools), start ticks, durations, memory demands and a suspension: one container per accepted assignment, one outcome per container, ledger equation after every tick.",
 "C10": "Suspension requested at a symbolic tick of a container's life with symbolic allocation and durations: acceptance iff at an operator boundary, refusals change nothing, write-out of exactly max(1, floor(ram/20)) ticks, exact release, work resumes; write-out formula for all tick rates by RLX proof.",
 "C11": "The set of containers killed by the real pool-level OOM killer satisfies the ordering / minimality statement for every symbolic memory/allocation/capacity assignment (non-linear integer constraints).",
 "C12": "Every scheduling round of bounded simulations with symbolic pool size, memory demand and arrival ticks satisfies strict priority, arrival order, work conservation and the preemption rules.",
 "C13": "Exact-rate replay protocol with symbolic arrival ticks; the seconds->tick mapping is never early / never beyond the rounding zone late / monotone for all rates (RLX); on-grid delivery decided bit-exactly per rate (known findings on non-dyadic rates).",
 "C14": "Write/read/write round trip for a symbolic DAG, priority, memory kind and menu-indexed laws/cells; injected format violations must be refused.",
 "C15": "Every arrival event of the real generator under symbolic normal draws / class picks satisfies the structural statement; raising cpu_io_ratio never makes a later operator more I/O-heavy (2-run harness).",
 "C16": "Every assignment of bounded priority-pool simulations (symbolic pool size, memory demands, arrivals) goes to the class's pool, retries are exactly the unfinished operators, and no retry reaches half of the pool.",
 "C17": "Every round of bounded naive-scheduler simulations over 1..3 pools with symbolic sizes, failures and arrival ticks satisfies the whole-pool FIFO statement.",
 "C18": "Every round of bounded overbook simulations (overcommit, pool-level OOM kills) with symbolic CPU count, RAM, memory demands and arrivals satisfies the statement, incl. abandonment after three failures.",
 "C19": "Every request of the real REST bridge against a stub server with symbolic decisions equals the true state; call schedule follows the poll rule; decisions executed as given; in-process twin gives identical results.",
 "C20": "snap: never up, less than one tick, on-grid unchanged, idempotent (RLX with monotone rounding, per rate); jitter in [a, a+delta]; per-sample seed reaches the generator; whole snap/jitter commands on traces with symbolic structure (in-memory files, scripted generator): other cells, grouping, order, draws.",
}

NOTE = ("Bounded: the claim holds for every input inside the stated bounds of evidence.coverage.bounds, nothing is claimed outside (see outside_claim). Trusted base: CrossHair 0.0.110 path "
        "exploration with the plugin vf/chplugin.py (M1 real-valued floats on exact domains, M2 logging f-strings skipped, no heuristic parallel forks, symbolic int() of real floats), z3 5.1; "
        "for kernels the AST->SMT translator vf/kernel/astsmt.py (validated on concrete points against the real functions on every run) and the RLX error model. "
        "Counterexamples are replayed natively against /repo before a VIOLATION is printed.")


def main():
    checks = []
    for i in range(1, 21):
        pid = f"C{i:02d}"
        mod = importlib.import_module(f"vf.props.{pid.lower()}")
        sp = mod.spec("quick")
        kinds = {o.kind for o in sp.obligations}
        tech = []
        if "ch" in kinds:
            tech.append("bounded symbolic execution of the real classes (CrossHair + z3), 'Confirmed over all paths' per partition")
        if "kn" in kinds and pid != "C07":
            tech.append("AST->SMT translation of the source's float kernels: RLX unsat proofs, FPX bit-exact counterexample search (z3)")
        if pid in ("C07", "C20"):
            tech.append("auxiliary, not a solver verdict: native differential runs of the real code in fresh interpreter processes under several hash seeds "
                        "(the clause 'fresh process under a different hash seed' / 'reproducible for a given seed'; hash randomisation is not a solver variable)")
        if pid == "C07":
            tech.append("each symbolic id-independence obligation is additionally run natively on points of its box (CrossHair models sets as insertion-ordered)")
        checks.append({
            "property_id": pid,
            "quick_cmd": f"./vcheck {pid} quick",
            "thorough_cmd": f"./vcheck {pid} thorough",
            "evidence_file": f"evidence/{pid}.json",
            "replay_cmd_template": "./vcheck replay {path}",
            "engine": "A+B" if len(kinds) == 2 else ("A" if "ch" in kinds else "B"),
            "level_claimed": {"category": "other", "text": "solver-based bounded checking of the real code: " + TEXT[pid], "design_ref": f"DESIGN.md section 6 ({pid})"},
            "level_note": NOTE + " Assumptions of this property: " + "; ".join(sp.assumptions)[:900],
            "technique": "; ".join(tech),
        })
    man = {
        "version": 1,
        "setup_cmd": "./setup.sh",
        "hooks": {"guard": "EUDOXIA_VERIF",
                  "enable": "no source hooks: checks import /repo's modules directly (EUDOXIA_REPO selects another checkout); logging is neutralised inside CrossHair by vf/chplugin.py and stubs are installed through module attributes",
                  "baseline_off_cmd": "cd /repo && /venv/bin/python -m pytest -ra -q -p no:cacheprovider --timeout=900 --continue-on-collection-errors",
                  "source_commits": [], "add_only": True},
        "engines": [
            {"name": "A", "path": "vf/run.py + vf/chrun.py + vf/harness/", "serves_properties": [c["property_id"] for c in checks if "A" in c["engine"]],
             "kind_free_text": "CrossHair 0.0.110 symbolic execution (z3) of the real eudoxia classes over bounded scenarios with symbolic parameters"},
            {"name": "B", "path": "vf/kernel/ + vf/kernels/", "serves_properties": [c["property_id"] for c in checks if "B" in c["engine"]],
             "kind_free_text": "Python-AST -> SMT translation of float kernels (z3 Real/Int relative-error model and Float64), regenerated from /repo's source on every run"}],
        "checks": checks,
        "notes": "Exit codes: 0 held on everything explored (inconclusive obligations listed in evidence, never counted as discharged); 1 reproduced unlisted violation; 3 machinery error (never printed as a violation). Known findings: known_findings.json.",
        "not_applicable": [],
    }
    json.dump(man, open(os.path.join(VERIF, "MANIFEST.json"), "w"), indent=1)
    print("wrote MANIFEST.json with", len(checks), "checks")


if __name__ == "__main__":
    main()
