"""Shared helpers for Engine-A harnesses: import the real eudoxia from the repo
under test, silence logging (M3), build pipelines / pools from small parameters."""
import logging
import os
import sys

REPO = os.environ.get("EUDOXIA_REPO", "/repo")
if sys.path[0] != REPO:
    sys.path.insert(0, REPO)

logging.disable(logging.CRITICAL)

import eudoxia  # noqa: E402  (real package from REPO)
from eudoxia.utils import Priority  # noqa: E402
from eudoxia.workload.pipeline import Pipeline, Operator, Segment  # noqa: E402
from eudoxia.workload.runtime_status import (  # noqa: E402
    OperatorState, PipelineRuntimeStatus, ASSIGNABLE_STATES)
from eudoxia.executor.assignment import Assignment, Suspend, ExecutionResult  # noqa: E402
from eudoxia.executor.container import Container  # noqa: E402
from eudoxia.executor.resource_pool import ResourcePool  # noqa: E402
from eudoxia.executor.executor import Executor  # noqa: E402

assert os.path.realpath(eudoxia.__file__).startswith(os.path.realpath(REPO)), \
    f"eudoxia imported from {eudoxia.__file__}, expected under {REPO}"

logging.disable(logging.CRITICAL)

S = OperatorState
PRIOS = {1: Priority.QUERY, 2: Priority.INTERACTIVE, 3: Priority.BATCH_PIPELINE}


def path_done():
    """Marker counted by the runner: one completed execution path."""
    try:
        sys.stderr.write("PATH\n")
    except Exception:
        pass


DECL = {}       # id(op) -> (op, parents the harness declared when it created the operator)


def reset_globals():
    Container.next_container_num = 1
    DECL.clear()


def decl_parents(op):
    """The parents this harness passed to Pipeline.new_operator for op - the harness's own record of the DAG,
    independent of what the library stored in Node.parents / Node.children."""
    e = DECL.get(id(op))
    if e is not None and e[0] is op:
        return e[1]
    return op.parents


def edge(bits, i, j):
    """Edge i -> j (i < j) of a DAG given as a tuple/list of bools in the order
    (0,1),(0,2),(1,2),(0,3),(1,3),(2,3),..."""
    return bits[j * (j - 1) // 2 + i]


def n_edge_bits(n):
    return n * (n - 1) // 2


def mk_pipeline(pid, prio, n_ops, bits, segs_per_op):
    """Pipeline with n_ops operators added in index order; op j gets parent i (i<j)
    iff bits says so.  segs_per_op[j] is a list of Segment kwargs dicts."""
    p = Pipeline(pid, PRIOS[prio] if isinstance(prio, int) else prio)
    ops = []
    for j in range(n_ops):
        parents = [ops[i] for i in range(j) if edge(bits, i, j)]
        op = p.new_operator(parents if parents else None)
        DECL[id(op)] = (op, list(parents))
        for kw in segs_per_op[j]:
            op.add_segment(Segment(**kw))
        ops.append(op)
    return p, ops


def seg_ticks(d, mem=None, read=0):
    """A 'const' segment lasting d CPU ticks at 1 tick/s."""
    return dict(baseline_cpu_seconds=d, cpu_scaling="const", memory_gb=mem, storage_read_gb=read)


def chain_bits(n):
    bits = [False] * n_edge_bits(n)
    for j in range(1, n):
        bits[j * (j - 1) // 2 + (j - 1)] = True
    return bits


def exc_name(e):
    return type(e).__name__


def states_of(ops):
    return [op.state() for op in ops]
