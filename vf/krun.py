"""Runs one Engine-B obligation in its own process:  python -m vf.krun module:function '<json args>'"""
import importlib
import json
import os
import sys
import traceback

VERIF = os.environ.get("VERIF_ROOT", os.path.dirname(os.path.dirname(os.path.abspath(__file__))))
if VERIF not in sys.path:
    sys.path.insert(0, VERIF)


def main(argv):
    modname, fname = argv[1].split(":")
    args = json.loads(argv[2]) if len(argv) > 2 else {}
    try:
        m = importlib.import_module(modname)
        res = getattr(m, fname)(**args)
    except Exception as e:
        from vf.kernel.astsmt import Unsupported
        from vf.kernel.extract import NotFound
        if isinstance(e, (Unsupported, NotFound)):
            res = {"status": "inconclusive", "detail": f"cannot encode current source: {e}"}
        else:
            res = {"status": "crash", "detail": traceback.format_exc()[-1500:]}
    print(json.dumps(res, default=str))
    return 0


if __name__ == "__main__":
    sys.exit(main(sys.argv))
