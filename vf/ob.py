"""Obligation descriptions shared by the property modules and the runner."""
from dataclasses import dataclass, field
from typing import Any, Callable, Dict, List, Optional, Tuple


@dataclass
class CH:
    """One CrossHair condition: harness(**sym, **fixed) must return '' on every path
    (expect='confirm'), or - for a reachability twin - must be shown to return
    'REACHED' on some path (expect='violate')."""
    name: str
    harness: str                     # "c03.conserve" -> vf.harness.c03.conserve
    sym: Dict[str, Tuple]            # arg -> ("int", lo, hi) | ("bool",) | ("float", lo, hi)
    fixed: Dict[str, Any] = field(default_factory=dict)
    pre: List[str] = field(default_factory=list)     # extra pre-conditions (python exprs over sym)
    timeout: int = 120               # per_condition_timeout (CPU seconds of one process)
    expect: str = "confirm"          # "confirm" | "violate"
    group: str = ""                  # obligations with the same non-empty group may share a process
    kind: str = "ch"
    per_path_timeout: Optional[float] = None
    native_points: int = 0           # additionally run the harness natively (no CrossHair) on this many concrete
                                     # points of the symbolic box (corners + seeded picks): CrossHair models sets
                                     # as insertion-ordered containers, so hash-order effects only show natively


@dataclass
class KN:
    """One Engine-B obligation: func(**args) runs in its own process and returns a
    dict {status: discharged|violated|inconclusive, detail, solver_s, queries,
    witness (for violated: dict with 'replay' spec), encoded: [...]}."""
    name: str
    func: str                        # "vf.kernels.c13:trace_on_grid"
    args: Dict[str, Any] = field(default_factory=dict)
    timeout: int = 300               # wall seconds for the whole obligation process
    kind: str = "kn"


@dataclass
class PropSpec:
    property_id: str
    obligations: List[Any]
    functions: List[str]             # real functions executed / encoded
    bounds: Dict[str, Any]
    outside: List[str]               # what lies outside the claim
    assumptions: List[str]
    explanation: str
