"""Engine A driver: turn CH obligations into CrossHair contract modules, run
`crosshair check` on them and parse one verdict per condition."""
import ast
import os
import re
import subprocess
import sys
import time

VERIF = os.environ.get("VERIF_ROOT", os.path.dirname(os.path.dirname(os.path.abspath(__file__))))
CROSSHAIR = os.path.join(VERIF, ".venv", "bin", "crosshair")
PY = os.path.join(VERIF, ".venv", "bin", "python")

_TYPES = {"int": "int", "bool": "bool", "float": "float"}


def fn_name(ob):
    return re.sub(r"[^A-Za-z0-9_]", "_", ob.name)


def contract_source(obs, known_prefixes=None):
    """Python source of a module holding one contract function per obligation.
    known_prefixes: {ob.name: [reason prefixes tolerated as known findings]}"""
    known_prefixes = known_prefixes or {}
    mods = sorted({ob.harness.split(".")[0] for ob in obs})
    out = ["import sys", f"sys.path.insert(0, {VERIF!r})"]
    for m in mods:
        out.append(f"from vf.harness import {m} as H_{m}")
    out.append("")
    lines = {}
    for ob in obs:
        mod, func = ob.harness.split(".")
        params = ", ".join(f"{a}: {_TYPES[spec[0]]}" for a, spec in ob.sym.items())
        pres = []
        for a, spec in ob.sym.items():
            if spec[0] in ("int", "float"):
                pres.append(f"{spec[1]!r} <= {a} <= {spec[2]!r}")
        pres.extend(ob.pre)
        out.append(f"def {fn_name(ob)}({params}) -> str:")
        lines[fn_name(ob)] = len(out)
        out.append('    """')
        # one pre-condition per line keeps CrossHair's messages readable
        for p in pres:
            out.append(f"    pre: {p}")
        if ob.expect == "confirm":
            tol = known_prefixes.get(ob.name, [])
            post = "_ == ''"
            for pref in tol:
                post += f" or _.startswith({pref!r})"
            out.append(f"    post: {post}")
        else:
            out.append("    post: _ != 'REACHED'")
        out.append('    """')
        call_args = [f"{a}={a}" for a in ob.sym] + [f"{k}={v!r}" for k, v in ob.fixed.items()]
        out.append(f"    return H_{mod}.{func}({', '.join(call_args)})")
        out.append("")
    return "\n".join(out) + "\n", lines


_MSG = re.compile(r"^(?P<file>[^:]+):(?P<line>\d+): (?P<level>error|info|warning): (?P<msg>.*)$")
_CALL = re.compile(r"when calling (?P<call>[A-Za-z0-9_]+\(.*?\))(?: \(which returns (?P<ret>.*)\))?$")


def parse_call(call_src, arg_names=()):
    node = ast.parse(call_src, mode="eval").body
    args = {}
    _ev = lambda n: eval(ast.unparse(n), {"float": float, "nan": float("nan"), "inf": float("inf")})
    for name, val in zip(arg_names, node.args):
        try:
            args[name] = ast.literal_eval(val)
        except Exception:
            args[name] = _ev(val)
    for kw in node.keywords:
        try:
            args[kw.arg] = ast.literal_eval(kw.value)
        except Exception:
            src = ast.unparse(kw.value)
            args[kw.arg] = eval(src, {"float": float, "nan": float("nan"), "inf": float("inf")})
    return node.func.id, args


def run_module(path, obs, timeout, per_path_timeout=None, env=None):
    """Run crosshair on one generated module.  Returns {fn_name: verdict dict} and
    the number of completed paths."""
    cmd = [CROSSHAIR, "check", path, "--report_all",
           "--per_condition_timeout", str(timeout),
           "--extra_plugin", os.path.join(VERIF, "vf", "chplugin_stub.py")]
    if per_path_timeout:
        cmd[3:3] = ["--per_path_timeout", str(per_path_timeout)]
    e = dict(os.environ)
    e.update(env or {})
    e["VERIF_ROOT"] = VERIF
    e.setdefault("PYTHONHASHSEED", "0")
    t0 = time.time()
    hard = timeout * len(obs) + 120
    try:
        p = subprocess.run(cmd, capture_output=True, text=True, timeout=hard, env=e)
        out, err, rc = p.stdout, p.stderr, p.returncode
    except subprocess.TimeoutExpired as ex:
        out = (ex.stdout or b"").decode() if isinstance(ex.stdout, bytes) else (ex.stdout or "")
        err = (ex.stderr or b"").decode() if isinstance(ex.stderr, bytes) else (ex.stderr or "")
        rc = -9
    wall = time.time() - t0
    paths = err.count("PATH\n")
    src_lines = open(path).read().split("\n")
    # map reported line -> enclosing def
    def owner(line_no):
        for i in range(min(line_no, len(src_lines)) - 1, -1, -1):
            m = re.match(r"def ([A-Za-z0-9_]+)\(", src_lines[i])
            if m:
                return m.group(1)
        return None
    verdicts = {}
    by_fn = {fn_name(o): o for o in obs}
    for ln in out.split("\n"):
        m = _MSG.match(ln.strip())
        if not m:
            continue
        fn = owner(int(m.group("line")))
        msg = m.group("msg")
        if fn is None:
            continue
        v = verdicts.setdefault(fn, {"status": None, "raw": []})
        v["raw"].append(msg)
        if m.group("level") == "error":
            v["status"] = "counterexample"
            cm = _CALL.search(msg)
            if cm:
                try:
                    ob_ = by_fn.get(fn)
                    _f, args = parse_call(cm.group("call"), list(ob_.sym) if ob_ else ())
                    v["args"] = args
                except Exception as pe:  # unparsable repr
                    v["parse_error"] = str(pe)
                v["returns"] = cm.group("ret")
            v["message"] = msg
        elif v["status"] is None:
            if msg.startswith("Confirmed over all paths"):
                v["status"] = "confirmed"
            elif msg.startswith("Not confirmed"):
                v["status"] = "not_confirmed"
            elif msg.startswith("Unable to meet precondition"):
                v["status"] = "no_precondition"
            else:
                v["status"] = "other"
    res = {}
    for ob in obs:
        v = verdicts.get(fn_name(ob))
        if v is None:
            tail = (err.replace("PATH\n", "")[-600:] if err else "")
            if rc == -9:
                v = {"status": "timeout", "raw": [f"no verdict within the hard limit of {hard}s"]}
            else:
                v = {"status": "crash", "raw": [f"no verdict (rc={rc})", tail]}
        res[ob.name] = v
    return res, paths, wall
