"""Native (no CrossHair, true floats) re-execution of a harness on concrete inputs.

usage: python -m vf.replay <replay.json>      -> prints the harness result; exit 1 if it
                                                  still violates, 0 if it does not.
The replay file: {"property","kind":"ch","harness":"c03.conserve","args":{...}}
              or {"property","kind":"kn","func":"vf.kernels.c13:replay_trace","args":{...}}
"""
import importlib
import json
import os
import sys

VERIF = os.environ.get("VERIF_ROOT", os.path.dirname(os.path.dirname(os.path.abspath(__file__))))
if VERIF not in sys.path:
    sys.path.insert(0, VERIF)


def call_harness(harness, args):
    mod, func = harness.split(".")
    m = importlib.import_module(f"vf.harness.{mod}")
    return getattr(m, func)(**args)


def call_kernel_replay(func, args):
    modname, fname = func.split(":")
    m = importlib.import_module(modname)
    return getattr(m, fname)(**args)


def run_spec(spec):
    if spec.get("kind", "ch") == "points":
        # several concrete points of one harness: result of the first point that violates
        for args in spec["args_list"]:
            r = call_harness(spec["harness"], args)
            if r:
                return {"failing_args": args, "result": r}
        return ""
    if spec.get("kind", "ch") == "ch":
        return call_harness(spec["harness"], spec["args"])
    return call_kernel_replay(spec["func"], spec["args"])


def main(argv):
    spec = json.load(open(argv[1]))
    res = run_spec(spec)
    print(json.dumps({"result": res}))
    if res:
        print(f"VIOLATION property={spec.get('property')} replay={os.path.abspath(argv[1])}")
        return 1
    print("replay: property holds on this input (no violation)")
    return 0


if __name__ == "__main__":
    sys.exit(main(sys.argv))
