"""Independent reference computations (no eudoxia code is called here).

The container model of C05, written from the property statement:
  * segments run one after another; a segment takes floor(read/20*tps) I/O ticks followed by
    floor(cpu_time(cpus)*tps) CPU ticks;
  * an operator ends with the last tick of its last segment that takes any time, and takes one
    tick if none of its segments does;
  * memory demand in a tick: the fixed amount if the segment has one; otherwise during I/O tick i
    (0-based) (i+1)/tps*20 GB and during the CPU phase the amount read;
  * the container is OOM-killed in the first tick whose demand exceeds the allocation.
All arguments may be symbolic ints under CrossHair (tick rate 1 scenarios) or exact Fractions."""
from fractions import Fraction


def cpu_time(law, cpus, base):
    """The documented scaling laws (README / ScalingFuncs docstrings), exact for rational input
    except sqrt/log which are returned as None (callers handle them separately)."""
    if law == "const":
        return base
    if law == "linear3":
        return base / (cpus if cpus < 3 else 3)
    if law == "linear7":
        return base / (cpus if cpus < 7 else 7)
    if law == "squared":
        return base / (cpus * cpus)
    if law == "exp":
        return base / (2 ** cpus if cpus < 4 else 16)
    return None


def seg_ticks_int(read, base, tps=1):
    """Tick counts for a 'const' segment with integral read/base at an integral tick rate."""
    io = (read * tps) // 20
    cpu = base * tps
    return io, cpu


def plan(ops, tps=1):
    """ops: list of operators, each a list of segments (read, base, mem) with 'const' scaling and
    integer values.  Returns the list of ticks: (op_index, demand, op_completes_in_this_tick)."""
    out = []
    for oi, segs in enumerate(ops):
        counts = [seg_ticks_int(r, b, tps) for (r, b, m) in segs]
        total = 0
        for (io, cpu) in counts:
            total = total + io + cpu
        if total == 0:
            counts[-1] = (0, 1)
        last = 0
        for si, (io, cpu) in enumerate(counts):
            if io + cpu > 0:
                last = si
        for si, (r, b, m) in enumerate(segs):
            io, cpu = counts[si]
            for i in range(io + cpu):
                if m is not None:
                    dem = m
                elif i < io:
                    dem = (i + 1) * 20 / tps if tps != 1 else (i + 1) * 20      # exact for tps in {2, 4}
                else:
                    dem = r
                done = (si == last and i == io + cpu - 1)
                out.append((oi, dem, done))
    return out


def run_plan(ticks, alloc):
    """Walk a plan under an allocation: returns (oom_tick or None, total_ticks)."""
    for t, (oi, dem, done) in enumerate(ticks):
        if dem > alloc:
            return t, len(ticks)
    return None, len(ticks)
