# Loaded through `crosshair --extra_plugin`; the file is exec'd inside a function,
# so it only puts /verif on the path and imports the real plugin module.
import os, sys
sys.path.insert(0, os.environ.get("VERIF_ROOT", "/verif"))
import vf.chplugin  # noqa
