"""C14 (trace files round-trip) and C13/A1 (trace replay protocol at an exact tick rate)."""
import io

from vf.hx import *  # noqa
from eudoxia.workload.csv_io import CSVWorkloadReader, CSVWorkloadWriter, WorkloadTraceGenerator, CSVOperatorRow
from eudoxia.workload.workload import WorkloadTrace, PipelineArrival

LAW_NAMES = ["const", "log", "sqrt", "linear3", "linear7", "squared", "exp"]
# M8: numeric cells cross into C code (csv, repr/float): values come from this menu
MENU = [0.0, 1.0, 15.0, 37.5, 0.1, 1e-9, 123456789.125, 1e300, 5e-324, 2.0,
        # doubles whose shortest round-tripping decimal needs 16 or 17 significant digits, and the extremes
        0.30000000000000004, 1 / 3, 2 ** 0.5, 33.333333333333336, 1.7976931348623157e308, 2.2250738585072014e-308]
INT_MENU = [0, 1, 15, 40]


def _law_of(seg):
    for k, f in Segment.SCALING_FUNCS.items():
        if f == seg.scaling_func:
            return k
    return None


def _mk(pid, prio, n, bits, laws, memk, vals):
    """pipeline with n ops; op j: law laws[j], memory kind memk[j] (0 unset, 1 explicit 0, 2 value), numeric cells from vals."""
    p = Pipeline(pid, PRIOS[prio])
    ops = []
    for j in range(n):
        parents = [ops[i] for i in range(j) if edge(bits, i, j)]
        op = p.new_operator(parents if parents else None)
        v = vals[j]
        mem = None if memk[j] == 0 else (0 if memk[j] == 1 else MENU[(v + 3) % len(MENU)])
        op.add_segment(Segment(baseline_cpu_seconds=MENU[v % len(MENU)], cpu_scaling=LAW_NAMES[laws[j]], memory_gb=mem,
                               storage_read_gb=MENU[(v + 5) % len(MENU)]))
        ops.append(op)
    return p, ops


def _describe(p):
    ops = list(p.values.node_lookup.values())
    out = []
    for op in ops:
        seg = op.get_segments()[0]
        out.append((sorted(ops.index(q) for q in op.parents), seg.baseline_cpu_seconds, _law_of(seg),
                    seg.memory_gb, seg.storage_read_gb, len(op.get_segments())))
    return (p.priority, out)


def _write(pipes_with_arrival):
    buf = io.StringIO()
    w = CSVWorkloadWriter(buf)
    g = WorkloadTraceGenerator(workload=None, ticks_per_second=1, duration_secs=1)
    for k, (arr, p) in enumerate(pipes_with_arrival):
        for row in g._pipeline_to_rows(p, f"p{k+1}", arr):
            w.write_row(row)
    return buf.getvalue()


def _read(text):
    return list(CSVWorkloadReader(io.StringIO(text)).batch_by_pipeline())


class _TickWorkload:
    """Workload stub for WorkloadTraceGenerator.generate_rows: hands out scripted pipelines at scripted ticks."""
    def __init__(self, by_tick):
        self.by_tick, self.t = by_tick, 0

    def run_one_tick(self):
        out = self.by_tick.get(self.t, [])
        self.t += 1
        return out


def _write_via_generator(p1, t1, p2, t2):
    by_tick = {}
    by_tick.setdefault(t1, []).append(p1)
    by_tick.setdefault(t2, []).append(p2)
    buf = io.StringIO()
    w = CSVWorkloadWriter(buf)
    for row in WorkloadTraceGenerator(_TickWorkload(by_tick), 1, 4).generate_rows():
        w.write_row(row)
    return buf.getvalue()


def write_read(n1, e0, e1, e2, e3, e4, e5, prio1, prio2, l0, l1, l2, l3, k0, k1, k2, k3, v0, v1, v2, v3,
               arr1, arr2, n2=1, gen_t1=-1, gen_t2=0, same_id=False, want=""):
    """Write two pipelines (the first with n1 <= 4 operators and an arbitrary DAG), read the text back."""
    bits = [e0, e1, e2, e3, e4, e5][:n_edge_bits(n1)]
    p1, _ = _mk("a", prio1, n1, bits, [l0, l1, l2, l3], [k0, k1, k2, k3], [v0, v1, v2, v3])
    p2, _ = _mk("a" if same_id else "b", prio2, n2, chain_bits(n2), [l3, l2, l1, l0], [k3, k2, k1, k0], [v3, v2, v1, v0])
    a1, a2 = MENU[arr1], MENU[arr2]
    if gen_t1 >= 0:
        # through the writer's own entry point: pipelines (whose own ids may coincide, e.g. two generators merged) handed
        # out by a workload at ticks gen_t1 <= gen_t2 of a 4-tick run at 1 tick/s, so the arrivals are the tick numbers
        if gen_t2 < gen_t1:
            return ""
        a1, a2 = float(gen_t1), float(gen_t2)
    try:
        text = _write([(a1, p1), (a2, p2)]) if gen_t1 < 0 else _write_via_generator(p1, gen_t1, p2, gen_t2)
        back = _read(text)
    except Exception as e:
        return f"C14:round_trip_raised:{exc_name(e)}"
    if len(back) != 2:
        return "C14:pipeline_count_changed"
    for (orig, arr), pa in zip(((p1, a1), (p2, a2)), back):
        if pa.arrival_seconds != arr:
            return "C14:arrival_changed"
        d0, d1 = _describe(orig), _describe(pa.pipeline)
        if d0[0] != d1[0]:
            return "C14:priority_changed"
        if len(d0[1]) != len(d1[1]):
            return "C14:operator_count_changed"
        for x, y in zip(d0[1], d1[1]):
            if x[0] != y[0]:
                return "C14:parent_sets_changed"
            if x[1] != y[1]:
                return "C14:cpu_seconds_changed"
            if x[2] != y[2]:
                return "C14:scaling_law_changed"
            if (x[3] is None) != (y[3] is None) or (x[3] is not None and x[3] != y[3]):
                return "C14:fixed_memory_changed"
            if x[4] != y[4]:
                return "C14:read_size_changed"
            if y[5] != 1:
                return "C14:segment_count_changed"
    # reading the writer's text and writing it again reproduces every row (arrival column aside)
    try:
        text2 = _write([(pa.arrival_seconds, pa.pipeline) for pa in back])
    except Exception as e:
        return f"C14:rewrite_raised:{exc_name(e)}"
    import csv
    r1 = list(csv.DictReader(io.StringIO(text)))
    r2 = list(csv.DictReader(io.StringIO(text2)))
    if len(r1) != len(r2):
        return "C14:rewrite_changed_row_count"
    for x, y in zip(r1, r2):
        for col in x:
            if col == "arrival_seconds" or (gen_t1 >= 0 and col == "pipeline_id"):
                continue        # (the second write numbers the pipelines itself; the ids the first writer chose are its own business)
            if x[col] != y[col]:
                try:
                    same = float(x[col]) == float(y[col])
                except ValueError:
                    same = False
                if not same:
                    return f"C14:rewrite_changed_column_{col}"
    if want == "multiparent":
        return "REACHED" if any(len(o.parents) >= 2 for o in p1.values) else ""
    if want == "multiroot":
        return "REACHED" if len(p1.values.roots) >= 2 else ""
    if want == "mem0":
        return "REACHED" if any(o.get_segments()[0].memory_gb == 0 and o.get_segments()[0].memory_gb is not None for o in p1.values) else ""
    if want:
        return ""
    path_done()
    return ""


VALID = [
    ["p1", "0.5", "BATCH_PIPELINE", "op1", "", "1.0", "const", "", "1.0"],
    ["p1", "", "", "op2", "op1", "2.0", "linear3", "0", "3.0"],
    ["p1", "", "", "op3", "op1;op2", "2.0", "sqrt", "4.5", "3.0"],
    ["p2", "1.5", "QUERY", "op1", "", "1.0", "const", "", "1.0"],
    ["p2", "", "", "op2", "op1", "1.0", "exp", "", "2.0"],
]
HEADER = "pipeline_id,arrival_seconds,priority,operator_id,parents,baseline_cpu_seconds,cpu_scaling,memory_gb,storage_read_gb"


def malformed(kind, row, want=""):
    """One format violation injected into a valid trace must make loading fail.
    kind: 0 clear priority (first row), 1 clear arrival (first row), 2 set priority on a later row,
    3 set arrival on a later row, 4 unknown priority, 5 unknown scaling law, 6 parent not defined earlier,
    7 no mutation (control: loads fine), 8-11 zero-valued arrival on a later row, 12 other priority on a later row,
    13 whitespace arrival on a first row."""
    rows = [list(r) for r in VALID]
    first_rows = [0, 3]
    later_rows = [1, 2, 4]
    if kind == 0:
        rows[first_rows[row % 2]][2] = ""
    elif kind == 1:
        rows[first_rows[row % 2]][1] = ""
    elif kind == 2:
        rows[later_rows[row % 3]][2] = "BATCH_PIPELINE"
    elif kind == 3:
        rows[later_rows[row % 3]][1] = "0.5"
    elif kind in (8, 9, 10, 11):
        # numerically zero / tiny / negative arrival on a later row is still "set"
        rows[later_rows[row % 3]][1] = {8: "0", 9: "0.0", 10: "-0.0", 11: "1e-300"}[kind]
    elif kind == 12:
        rows[later_rows[row % 3]][2] = "QUERY"          # a different priority on a later row
    elif kind == 13:
        rows[first_rows[row % 2]][1] = " "              # blank arrival on a first row
    elif kind == 4:
        rows[first_rows[row % 2]][2] = "URGENT"
    elif kind == 5:
        rows[row % 5][6] = "cubic"
    elif kind == 6:
        r = later_rows[row % 3]
        rows[r][4] = "op9" if row % 2 == 0 else rows[r][3]     # unknown id, or the operator itself
    text = HEADER + "\n" + "\n".join(",".join(r) for r in rows) + "\n"
    try:
        got = _read(text)
        loaded = True
    except Exception:
        loaded = False
    if kind == 7:
        if not loaded or len(got) != 2:
            return "C14:valid_trace_refused"
        if want == "control":
            return "REACHED"
    elif loaded:
        return f"C14:malformed_trace_loaded_kind{kind}"
    if want:
        return ""
    path_done()
    return ""


# ---- C13 / A1 -----------------------------------------------------------------------------
class _Reader(CSVWorkloadReader):
    """The real batch_by_arrival grouping over a given sequence of (arrival, pipeline)."""

    def __init__(self, arrivals):
        self.arrivals = arrivals

    def batch_by_pipeline(self):
        for a, p in self.arrivals:
            yield PipelineArrival(a, p)


def trace_protocol(tps, a0, a1, a2, a3, n, R, pa=-1, pr=0, dup_ids=False, want=""):
    """n <= 4 pipelines with arrival times a_i/tps seconds... at tick rate tps in {1,2,4} the seconds
    value k/tps is exact, so the expected delivery tick of arrival k/tps is k.  Arrivals are
    non-decreasing (file order); the run lasts R ticks."""
    arr_ticks = [a0, a1, a2, a3][:n]
    for i in range(1, n):
        if arr_ticks[i] < arr_ticks[i - 1]:
            return ""
    if pa >= 0:
        # an earlier replay in the same process: another trace (arrivals at ticks 0 and pa) run for pr ticks only, so it
        # may stop before it is exhausted; it must not leave anything behind for the replay below
        other = [Pipeline(f"o{i}", Priority.BATCH_PIPELINE) for i in range(2)]
        wl0 = _Reader([(0 / tps, other[0]), (pa / tps, other[1])]).get_workload(tps)
        for t in range(pr):
            wl0.run_one_tick()
    # (dup_ids: pipeline ids are labels of the trace, not keys - e.g. two gentrace outputs merged by arrival time reuse p1, p2, ...;
    #  every pipeline object is still delivered once)
    pipes = [Pipeline(f"p{i % 2}" if dup_ids else f"p{i}", Priority.QUERY) for i in range(n)]
    arrivals = [(arr_ticks[i] / tps, pipes[i]) for i in range(n)]
    wl = _Reader(arrivals).get_workload(tps)
    delivered = {}
    order = []
    for t in range(R):
        got = wl.run_one_tick()
        for p in got:
            i = next((k for k in range(n) if pipes[k] is p), None)
            if i is None:
                return "C13:delivered_a_pipeline_that_is_not_in_the_trace"
            if i in delivered:
                return "C13:pipeline_delivered_twice"
            delivered[i] = t
            order.append(i)
    for i in range(n):
        if arr_ticks[i] < R:
            if i not in delivered:
                return "C13:pipeline_not_delivered"
            if delivered[i] < arr_ticks[i]:
                return "C13:delivered_before_arrival"
            if delivered[i] != arr_ticks[i]:
                return "C13:delivered_late_at_exact_tick_rate"
        elif i in delivered:
            return "C13:pipeline_after_run_end_delivered"
    if order != sorted(order):
        return "C13:file_order_not_kept"
    if want == "same_tick":
        return "REACHED" if len(set(delivered.values())) < len(delivered) else ""
    if want == "after_end":
        return "REACHED" if any(a >= R for a in arr_ticks) else ""
    if want:
        return ""
    path_done()
    return ""


def gentrace_roundtrip(tps, seed, wmean, K=24, want=""):
    """Real generator -> WorkloadTraceGenerator -> CSV text -> reader -> WorkloadTrace at an exact tick
    rate: every pipeline is replayed in the tick in which it was generated, in the same order."""
    from eudoxia.workload.workload import WorkloadGenerator
    params = dict(waiting_seconds_mean=wmean, num_pipelines=2, num_operators=2, num_segs=1, cpu_io_ratio=0.5, random_seed=seed,
                  batch_prob=0.6, query_prob=0.1, interactive_prob=0.3, ticks_per_second=tps)
    g1 = WorkloadGenerator(**params)
    gen = {}
    for t in range(K):
        for p in g1.run_one_tick():
            gen.setdefault(t, []).append((p.priority, len(list(p.values))))
    g2 = WorkloadGenerator(**params)
    buf = io.StringIO()
    w = CSVWorkloadWriter(buf)
    for row in WorkloadTraceGenerator(g2, tps, K / tps).generate_rows():
        w.write_row(row)
    wl = CSVWorkloadReader(io.StringIO(buf.getvalue())).get_workload(tps)
    rep = {}
    for t in range(K):
        for p in wl.run_one_tick():
            rep.setdefault(t, []).append((p.priority, len(list(p.values))))
    if gen != rep:
        return "C13:gentrace_replay_differs_from_generation"
    if want:
        return "REACHED" if len(gen) >= 2 else ""
    path_done()
    return ""
