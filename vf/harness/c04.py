"""C04 - memory limits hold after every tick and reported usage is the real usage."""
from vf.hx import *  # noqa
from vf import oracle


def memory_step(cap, oc, kinds, a0, a1, a2, x0, x1, x2, dA, t1, t2, sus_at, K=7, want=""):
    """Three containers in one pool (8 CPU, `cap` GB, overcommit `oc`):
      container 0: two operators (first dA ticks, second 2 ticks), allocation a0, started at tick 0;
      container 1 / 2: one operator, allocation a1 / a2, started at ticks t1 / t2.
    kinds[i] = 'F': every segment of container i has fixed memory x_i;  'G': memory grows while x_i GB
    are read (20 GB per tick at 1 tick/s) and stays at x_i during a 2-tick CPU phase.
    A Suspend for container 0 is sent at tick sus_at (-1: never; refused requests end the scenario)."""
    reset_globals()
    pool = ResourcePool(pool_id=0, cpu_pool=8, ram_pool=cap, ticks_per_second=1,
                        allow_memory_overcommit=oc)
    xs = [x0, x1, x2]
    allocs = [a0, a1, a2]
    starts = [0, t1, t2]
    segs = []
    for i in range(3):
        if kinds[i] == "F":
            first = (0, dA if i == 0 else 3, xs[i])
            second = (0, 2, xs[i])
        else:
            first = (xs[i], 2, None)
            second = (0, 2, 1)
        segs.append([[first], [second]] if i == 0 else [[first]])
    plans = [oracle.plan(s_, 1) for s_ in segs]
    conts = [None, None, None]
    local = [0, 0, 0]           # next local tick of container i
    alive = [False, False, False]
    seen = set()
    asgs = []
    opsl = []
    for i in range(3):
        p, ops = mk_pipeline(f"p{i}", 3, len(segs[i]), chain_bits(len(segs[i])),
                             [[dict(baseline_cpu_seconds=b, cpu_scaling="const", memory_gb=m, storage_read_gb=r)
                               for (r, b, m) in op] for op in segs[i]])
        opsl.append(ops)
    for t in range(K):
        batch = []
        for i in range(3):
            if starts[i] == t:
                batch.append((i, Assignment(ops=opsl[i], cpu=1, ram=allocs[i], priority=Priority.BATCH_PIPELINE,
                                            pool_id=0, pipeline_id=f"p{i}")))
        sus = []
        if t == sus_at and conts[0] is not None and alive[0]:
            sus.append(Suspend(conts[0].container_id, 0))
        try:
            res = pool.run_one_tick(sus, [a for (_i, a) in batch])
        except Exception:
            # inadmissible batch (not C04's subject) or refused suspension
            if want:
                return ""
            path_done()
            return ""
        for (i, a) in batch:
            alive[i] = True
            for c in pool.active_containers:
                if c.assignment is a:
                    conts[i] = c
        if sus:
            alive[0] = False
            seen.add("suspended")
        # model: demand of every live container in this tick
        failed_ids = set(r.container_id for r in res if r.failed())
        ok_ids = set(r.container_id for r in res if not r.failed())
        demand = [None, None, None]
        finishing = [False, False, False]
        for i in range(3):
            if alive[i]:
                oi, dem, done = plans[i][local[i]]
                demand[i] = dem
                finishing[i] = done and oi == len(segs[i]) - 1
        over = [i for i in range(3) if alive[i] and demand[i] > allocs[i]]
        within = [i for i in range(3) if alive[i] and not demand[i] > allocs[i]]
        tot_within = 0
        for i in within:
            if not finishing[i]:
                tot_within = tot_within + demand[i]
        for i in range(3):
            if not alive[i]:
                continue
            cid = None
            for (j, a) in batch:
                if j == i and conts[i] is None:
                    # created and gone within the tick: find through results
                    for r in res:
                        if r.ops is opsl[i]:
                            cid = r.container_id
            if conts[i] is not None:
                cid = conts[i].container_id
            killed = cid in failed_ids
            if i in over and not killed:
                return "C04:over_allocation_not_killed"
            if i in within and killed:
                if not oc:
                    return "C04:killed_within_allocation_without_overcommit"
                if not tot_within > cap:
                    return "C04:pool_kill_although_demand_fits"
                if finishing[i]:
                    return "C04:finished_container_killed"
                seen.add("pool_kill")
            if killed:
                seen.add("kill")
            if killed or (cid in ok_ids):
                alive[i] = False
            else:
                local[i] = local[i] + 1
        # limits and reporting after the tick
        tot = 0
        for c in pool.active_containers:
            u = c.get_current_memory_usage()
            if u > c.assignment.ram:
                return "C04:container_over_allocation_after_tick"
            tot = tot + u
        if tot > cap:
            return "C04:pool_over_capacity_after_tick"
        rep = pool.get_consumed_ram_gb()
        if not (rep == tot or (isinstance(rep, float) and abs(rep - tot) <= 1e-6 * max(1.0, cap))):
            return "C04:reported_usage_differs"
        if not pool.active_containers and rep != 0:
            return "C04:idle_pool_reports_usage"
        exp_tot = 0
        for i in range(3):
            if alive[i]:
                exp_tot = exp_tot + demand[i]
        if tot != exp_tot:
            return "C04:usage_differs_from_model"
    if want:
        return "REACHED" if want in seen else ""
    path_done()
    return ""


def sim_memory(cfg, cpus=4, ram=40, da=1, db=1, dc=1, ma=None, mb=None, pa=3, pb=3, ta=0, tb=0, want=""):
    """Memory limits and reported usage in full scheduler+executor simulations."""
    from vf.harness import sim
    return sim.run(cfg, [sim.Memory()], cpus=cpus, ram=ram, da=da, db=db, dc=dc, ma=ma, mb=mb,
                   pa=pa, pb=pb, ta=ta, tb=tb, want=want)
