"""C05 - container execution follows the documented time and memory model.
One container is run tick by tick against the independent oracle of vf/oracle.py."""
from vf.hx import *  # noqa
from vf import oracle


def container_run(layout, alloc, r0=0, d0=1, m0=None, r1=0, d1=1, m1=None, r2=0, d2=1, m2=None,
                  r3=0, d3=1, m3=None, cap=400, K=14, tps=1, perm=None, chains=False, want=""):
    """layout: list of operators, each a list of segment slots (0..3); slot k uses (r_k, d_k, m_k):
    read GB, baseline CPU seconds ('const' law, 1 CPU, 1 tick/s), fixed memory or None (growing)."""
    reset_globals()
    slots = [(r0, d0, m0), (r1, d1, m1), (r2, d2, m2), (r3, d3, m3)]
    ops_segs = [[slots[k] for k in op] for op in layout]
    p = Pipeline("p", Priority.BATCH_PIPELINE)
    ops = []
    prev = None
    for idx, segs in enumerate(ops_segs):
        if perm is None:
            parents = [prev] if prev is not None else None           # a chain, assigned in chain order
        elif chains and idx >= 2:
            parents = [ops[idx - 2]]                                  # two chains 0->2, 1->3 (roots created first)
        else:
            parents = None                                            # independent operators
        op = p.new_operator(parents)
        for (r, d, m) in segs:
            op.add_segment(Segment(baseline_cpu_seconds=d, cpu_scaling="const", memory_gb=m, storage_read_gb=r))
        ops.append(op)
        prev = op
    if perm is not None:
        # the order in which the operators are assigned (a valid dependency order that need not be the order of creation /
        # of DAG iteration): the container runs them one after another in exactly this order
        ops = [ops[i] for i in perm]
        ops_segs = [ops_segs[i] for i in perm]
    ticks = oracle.plan(ops_segs, tps)
    oom_at, total = oracle.run_plan(ticks, alloc)
    if total > K:
        return ""       # outside the bound of this scenario
    pool = ResourcePool(pool_id=0, cpu_pool=2, ram_pool=cap, ticks_per_second=tps)
    a = Assignment(ops=ops, cpu=1, ram=alloc, priority=Priority.BATCH_PIPELINE, pool_id=0, pipeline_id="p")
    end = oom_at if oom_at is not None else total - 1
    n = len(ops)
    for t in range(end + 2):
        try:
            res = pool.run_one_tick([], [a] if t == 0 else [])
        except Exception as e:
            return f"C05:exception:{exc_name(e)}@tick{t}"
        if t > end:
            if res or pool.active_containers:
                return "C05:activity_after_end"
            break
        oi, dem, done = ticks[t]
        if t < end:
            if res:
                return "C05:result_too_early"
            if len(pool.active_containers) != 1:
                return "C05:container_missing_before_end"
            c = pool.active_containers[0]
            if c.get_current_memory_usage() != dem:
                return "C05:memory_differs_from_model"
            for j in range(n):
                st = ops[j].state()
                if j < oi or (j == oi and done):
                    exp = S.COMPLETED
                elif j == oi:
                    exp = S.RUNNING
                else:
                    exp = S.ASSIGNED
                if st != exp:
                    return "C05:operator_state_differs_from_model"
            if c.can_suspend_container() != bool(done):
                return "C05:suspendable_flag_differs_from_model"
            if c.ticks_elapsed() != t + 1:
                return "C05:ticks_elapsed_wrong"
        else:
            if len(res) != 1:
                return "C05:no_result_in_final_tick" if not res else "C05:several_results"
            r = res[0]
            if oom_at is not None:
                if not r.failed() or r.error != "OOM":
                    return "C05:oom_expected"
                for j in range(n):
                    exp = S.COMPLETED if j < oi else S.FAILED
                    if ops[j].state() != exp:
                        return "C05:states_after_oom_differ"
            else:
                if r.failed():
                    return "C05:unexpected_failure"
                for j in range(n):
                    if ops[j].state() != S.COMPLETED:
                        return "C05:not_all_completed_at_success"
            if pool.active_containers:
                return "C05:container_still_active_after_end"
            if pool.get_consumed_ram_gb() != 0:
                return "C05:usage_left_after_end"
    if want == "oom":
        return "REACHED" if oom_at is not None and oom_at > 0 else ""
    if want == "success":
        return "REACHED" if oom_at is None and total >= 3 else ""
    if want == "zero":
        z = False
        for segs in ops_segs:
            tot = 0
            for (r, d, m) in segs:
                tot = tot + (r * tps) // 20 + d * tps
            if tot == 0:
                z = True
        return "REACHED" if z else ""
    if want:
        return ""
    path_done()
    return ""
