"""Harnesses that drive the REAL run_simulator (C06, C07, C08).

A recording workload delivers the scenario's pipelines; the scheduler under test is wrapped by
a recorder registered under its own key (it delegates to the real init / scheduling functions)
and the executor instance's run_one_tick is wrapped so that every tick's results are seen,
including the last tick's."""
import math

from vf.hx import *  # noqa
from vf.harness import sim
from eudoxia.simulator import run_simulator
from eudoxia.workload.workload import Workload
from eudoxia.scheduler.decorators import SCHEDULING_ALGOS, INIT_ALGOS, register_scheduler, register_scheduler_init


class Rec:
    """What one run looked like from outside."""

    def __init__(self):
        self.ticks = []          # per tick dict(new=[pids], results_in=n, sus=[...], asg=[...], results_out=[...])
        self.arrival = {}        # pid -> tick
        self.prio = {}
        self.complete_seen = {}  # pid -> scheduler-call index at which all ops were first seen COMPLETED
        self.pipes = {}
        self.executor = None
        self.calls = 0


_CUR = {"rec": None}


def _rec_key(algo):
    key = "verifrec:" + algo
    if key not in SCHEDULING_ALGOS:
        # "resumeflag:<algo>": the decisions of <algo>, with is_resume=True on every assignment for a pipeline that already had one
        # (how an external / custom scheduler marks re-assigned work; the flag must not change what is counted)
        flag_resume = algo.startswith("resumeflag:")
        base_algo = algo.split(":", 1)[1] if flag_resume else algo
        real_algo = sim._starter_key() if base_algo == "starter" else base_algo
        had = {}

        @register_scheduler_init(key=key)
        def _init(s, _real=real_algo):
            rec = _CUR["rec"]
            rec.executor = s.executor
            orig = s.executor.run_one_tick

            def wrapped(suspensions, assignments):
                out = orig(suspensions, assignments)
                rec.ticks[-1]["results_out"] = [(r.container_id, r.error, [id(o) for o in r.ops], r.pool_id) for r in out]
                rec.ticks[-1]["states_after"] = {pid: [o.state() for o in ops] for pid, (p, ops) in rec.pipes.items()}
                return out
            s.executor.run_one_tick = wrapped
            INIT_ALGOS[_real](s)

        @register_scheduler(key=key)
        def _sched(s, results, pipelines, _real=real_algo):
            rec = _CUR["rec"]
            for p in pipelines:
                rec.arrival[p.pipeline_id] = rec.calls
                rec.prio[p.pipeline_id] = p.priority
            for pid, (p, ops) in rec.pipes.items():
                if pid in rec.arrival and pid not in rec.complete_seen:
                    if all(o.state() == S.COMPLETED for o in ops):
                        rec.complete_seen[pid] = rec.calls
            sus, asg = SCHEDULING_ALGOS[_real](s, results, pipelines)
            if flag_resume:
                if rec.calls == 0:
                    had.clear()
                for a in asg:
                    if had.get(a.pipeline_id):
                        a.is_resume = True
                    had[a.pipeline_id] = True
            rec.ticks.append(dict(new=[p.pipeline_id for p in pipelines], results_in=len(results),
                                  sus=[(x.container_id, x.pool_id) for x in sus],
                                  asg=[(a.pipeline_id, [id(o) for o in a.ops], a.cpu, a.ram, a.pool_id) for a in asg],
                                  results_out=None))
            rec.calls += 1
            return sus, asg
    return key


class ScriptedWorkload(Workload):
    def __init__(self, pending):
        self.pending = pending
        self.tick = 0

    def run_one_tick(self):
        out = [p for (at, p, ops) in self.pending if at == self.tick]
        self.tick += 1
        return out


def simulate(cfg, flat):
    """Runs the real simulator on the scenario; returns (stats, rec) or raises what it raised."""
    reset_globals()

    def val(x):
        return flat[x] if isinstance(x, str) and x in flat else x
    pending = sim.build_pipes(cfg, val)
    rec = Rec()
    for (at, p, ops) in pending:
        rec.pipes[p.pipeline_id] = (p, ops)
    _CUR["rec"] = rec
    tps = cfg.get("tps", 1)
    params = dict(scheduler_algo=_rec_key(cfg["algo"]), num_pools=cfg.get("pools", 1), cpus_per_pool=flat["cpus"],
                  ram_gb_per_pool=flat["ram"], ticks_per_second=tps, duration=cfg["duration"],
                  multi_operator_containers=cfg.get("multi", True), allow_memory_overcommit=cfg.get("oc", False))
    stats = run_simulator(params, workload=ScriptedWorkload(pending))
    return stats, rec, pending, params


def _where(e):
    tb = e.__traceback__
    last = None
    while tb is not None:
        fn = tb.tb_frame.f_code.co_filename
        if "/eudoxia/" in fn:
            last = (fn.split("/eudoxia/")[-1], tb.tb_frame.f_code.co_name)
        tb = tb.tb_next
    return f"{last[0]}:{last[1]}" if last else "?"


def percentile99(xs):
    """numpy's default (linear) percentile, written out."""
    xs = sorted(xs)
    n = len(xs)
    rank = 0.99 * (n - 1)
    lo = int(math.floor(rank))
    hi = min(lo + 1, n - 1)
    return xs[lo] + (rank - lo) * (xs[hi] - xs[lo])


def _close(a, b):
    if isinstance(a, float) and math.isnan(a):
        return isinstance(b, float) and math.isnan(b)
    if isinstance(b, float) and math.isnan(b):
        return False
    return abs(a - b) <= 1e-9 * max(1.0, abs(a), abs(b))


def stats_recount(cfg, cpus=4, ram=40, da=1, db=1, dc=1, ma=None, mb=None, pa=3, pb=3, ta=0, tb=0, want=""):
    """C06: the returned statistics equal an independent recount of the run."""
    flat = dict(cpus=cpus, ram=ram, da=da, db=db, dc=dc, ma=ma, mb=mb, pa=pa, pb=pb, ta=ta, tb=tb)
    try:
        stats, rec, pending, params = simulate(cfg, flat)
    except Exception as e:
        return f"C06:run_raised:{exc_name(e)}@{_where(e)}"
    tps = params["ticks_per_second"]
    nticks = len(rec.ticks)
    seen = set()
    # arrivals
    arr_by = {Priority.QUERY: 0, Priority.INTERACTIVE: 0, Priority.BATCH_PIPELINE: 0}
    for pid, t in rec.arrival.items():
        arr_by[rec.prio[pid]] += 1
    total_arr = sum(arr_by.values())
    if stats.pipelines_created != total_arr or stats.pipelines_all.arrival_count != total_arr:
        return "C06:pipelines_created_differs_from_arrivals"
    if (stats.pipelines_query.arrival_count != arr_by[Priority.QUERY]
            or stats.pipelines_interactive.arrival_count != arr_by[Priority.INTERACTIVE]
            or stats.pipelines_batch.arrival_count != arr_by[Priority.BATCH_PIPELINE]):
        return "C06:per_class_arrivals_wrong"
    # completions: tick in which the last operator became COMPLETED
    lat_by = {Priority.QUERY: [], Priority.INTERACTIVE: [], Priority.BATCH_PIPELINE: []}
    for pid, (p, ops) in rec.pipes.items():
        if pid not in rec.arrival:
            if p.runtime_status().finish_tick is not None:
                return "C06:pipeline_that_never_arrived_finished"
            continue
        fin = None
        for t in range(nticks):
            st = rec.ticks[t].get("states_after")
            if st is not None and all(x == S.COMPLETED for x in st[pid]):
                fin = t
                break
        rs = p.runtime_status()
        if fin is None:
            if rs.finish_tick is not None:
                return "C06:pipeline_counted_complete_with_unfinished_operator"
            continue
        seen.add("completed")
        if rs.finish_tick is None:
            return "C06:completed_pipeline_not_counted"
        if rs.finish_tick != fin:
            return "C06:finish_tick_is_not_the_tick_of_the_last_completion"
        if rs.arrival_tick != rec.arrival[pid]:
            return "C06:arrival_tick_wrong"
        lat_by[rec.prio[pid]].append(fin - rec.arrival[pid])
    all_lat = lat_by[Priority.QUERY] + lat_by[Priority.INTERACTIVE] + lat_by[Priority.BATCH_PIPELINE]
    for name, ps, lats in (("all", stats.pipelines_all, all_lat), ("query", stats.pipelines_query, lat_by[Priority.QUERY]),
                           ("interactive", stats.pipelines_interactive, lat_by[Priority.INTERACTIVE]),
                           ("batch", stats.pipelines_batch, lat_by[Priority.BATCH_PIPELINE])):
        if ps.completion_count != len(lats):
            return f"C06:completion_count_{name}_wrong"
        if lats:
            mean = sum(lats) / len(lats) / tps
            p99 = percentile99(lats) / tps
        else:
            mean = p99 = float("nan")
        if not _close(ps.mean_latency_seconds, mean):
            return f"C06:mean_latency_{name}_wrong"
        if not _close(ps.p99_latency_seconds, p99):
            return f"C06:p99_latency_{name}_wrong"
    if not lat_by[Priority.QUERY] or not lat_by[Priority.BATCH_PIPELINE]:
        seen.add("empty_class")
    # counters
    n_asg = sum(len(t["asg"]) for t in rec.ticks)
    n_sus = sum(len(t["sus"]) for t in rec.ticks)
    ok = fail = 0
    errs = {}
    for t in rec.ticks:
        for (cid, err, _ops, _pool) in (t["results_out"] or []):
            if err is None:
                ok += 1
            else:
                fail += 1
                errs[err] = errs.get(err, 0) + 1
    if fail:
        seen.add("fail")
    if n_sus:
        seen.add("suspend")
    if stats.assignments != n_asg:
        return "C06:assignments_counter_wrong"
    if stats.suspensions != n_sus:
        return "C06:suspensions_counter_wrong"
    if stats.failures != fail:
        return "C06:failures_counter_wrong"
    if dict(stats.failure_error_counts) != errs:
        return "C06:failure_error_counts_wrong"
    if stats.containers_completed != ok:
        return "C06:containers_completed_wrong"
    if not _close(stats.throughput, ok / params["duration"]):
        return "C06:throughput_wrong"
    if nticks != int(params["duration"] * tps):
        return "C06:number_of_ticks_wrong"
    if want:
        return "REACHED" if want in seen else ""
    path_done()
    return ""


def uncontended(algo, multi, n, d0, d1, d2, m, cpus, ram, K=12, t0=-1, t1=0, t2=0, want=""):
    """C06 last clause: a lone chain with enough memory finishes in exactly the ticks its operators
    need (multi-operator containers: one container, no gaps; arrival at tick 0)."""
    durs = [d0, d1, d2][:n]
    cfg = dict(algo=algo, pools=2 if algo == "priority-pool" else 1, multi=multi, oc=(algo == "overbook"),
               duration=K, pipes=[dict(shape={1: "single", 2: "chain2", 3: "chain3"}[n], prio=3, at=0, durs=durs, mems=[m] * n)])
    tails = [t0, t1, t2][:n]
    if t0 >= 0:
        # two-segment operators: a trailing segment that reads t_j GB (t_j // 20 ticks, possibly a positive time of zero ticks)
        cfg["pipes"][0]["tails"] = tails
    flat = dict(cpus=cpus, ram=ram)
    try:
        stats, rec, pending, params = simulate(cfg, flat)
    except Exception as e:
        return f"C06:run_raised:{exc_name(e)}@{_where(e)}"
    need = 0
    for j, d in enumerate(durs):
        need = need + d + (tails[j] // 20 if t0 >= 0 else 0)
    p = pending[0][1]
    fin = p.runtime_status().finish_tick
    if need > K:
        return ""
    if fin is None:
        return "C06:uncontended_pipeline_did_not_finish"
    if fin - 0 + 1 != need:
        return "C06:uncontended_pipeline_took_wrong_number_of_ticks"
    if want:
        return "REACHED" if want == "done" else ""
    path_done()
    return ""


def runs_to_end(cfg, cpus=4, ram=40, da=1, db=1, dc=1, ma=None, mb=None, pa=3, pb=3, ta=0, tb=0, want=""):
    """C08: a valid configuration runs to its last tick and returns statistics."""
    flat = dict(cpus=cpus, ram=ram, da=da, db=db, dc=dc, ma=ma, mb=mb, pa=pa, pb=pb, ta=ta, tb=tb)
    try:
        stats, rec, pending, params = simulate(cfg, flat)
    except Exception as e:
        return f"C08:run_raised:{exc_name(e)}@{_where(e)}"
    if len(rec.ticks) != int(params["duration"] * params["ticks_per_second"]):
        return "C08:run_stopped_early"
    if stats is None or stats.pipelines_created != len(rec.arrival):
        return "C08:statistics_missing"
    if want:
        seen = set()
        for t in rec.ticks:
            for (cid, err, _o, _p) in (t["results_out"] or []):
                seen.add("fail" if err else "ok")
            if t["sus"]:
                seen.add("suspend")
        return "REACHED" if want in seen else ""
    path_done()
    return ""


# ---- C07 --------------------------------------------------------------------------------------
class _IdStub:
    """Replacement for the `uuid` module inside eudoxia.utils.dag: ids come from a chosen sequence."""

    def __init__(self, mode):
        import uuid as real
        self.real = real
        self.UUID = real.UUID
        self.mode = mode
        self.i = 0

    def uuid4(self):
        i = self.i
        self.i += 1
        if self.mode == "asc":
            v = 1000 + i
        elif self.mode == "desc":
            v = 900000 - i
        elif self.mode == "scramble":
            v = 1 + (i * 7919 + 13) % 10007
        elif self.mode == "alt":
            v = (5000 + i) if i % 2 == 0 else (4000 - i)
        else:
            v = 17 + (i * 104729) % 1299709
        return self.real.UUID(int=v)


def _event_log(rec):
    """Tick-by-tick log with identifiers renumbered by first appearance."""
    opnum = {}
    for pid in sorted(rec.pipes):
        p, ops = rec.pipes[pid]
        for j, o in enumerate(ops):
            opnum[id(o)] = (pid, j)
    cnum = {}
    log = []

    def cn(cid):
        if cid not in cnum:
            cnum[cid] = len(cnum)
        return cnum[cid]
    for t in rec.ticks:
        log.append((tuple(t["new"]), t["results_in"],
                    tuple((cn(c), pl) for (c, pl) in t["sus"]),
                    tuple((pid, tuple(opnum[o] for o in ops), cpu, ram, pool) for (pid, ops, cpu, ram, pool) in t["asg"]),
                    tuple((cn(c), err, tuple(opnum[o] for o in ops), pool) for (c, err, ops, pool) in (t["results_out"] or []))))
    return log


def _stats_tuple(st):
    def ps(x):
        return (x.arrival_count, x.completion_count, repr(x.mean_latency_seconds), repr(x.p99_latency_seconds))
    return (st.pipelines_created, st.containers_completed, repr(st.throughput), repr(st.p99_latency), st.assignments,
            st.suspensions, st.failures, tuple(sorted(st.failure_error_counts.items())),
            ps(st.pipelines_all), ps(st.pipelines_query), ps(st.pipelines_interactive), ps(st.pipelines_batch))


def id_independence(cfg, mode, cstart, cpus=4, ram=40, da=1, db=1, dc=1, ma=None, mb=None, pa=3, pb=3, ta=0, tb=0, want=""):
    """C07: the same scenario with different values of the random identifiers (and a different
    starting value of the process-wide container counter) gives the same tick-by-tick log and the
    same statistics."""
    import eudoxia.utils.dag as dag
    flat = dict(cpus=cpus, ram=ram, da=da, db=db, dc=dc, ma=ma, mb=mb, pa=pa, pb=pb, ta=ta, tb=tb)
    real_uuid = dag.uuid
    out = []
    try:
        for (m, start) in (("asc", 1), (mode, cstart)):
            dag.uuid = _IdStub(m)
            try:
                reset_globals()
                stats, rec, pending, params = simulate_with_counter(cfg, flat, start)
            except Exception as e:
                out.append(("EXC", exc_name(e), _where(e)))
                continue
            out.append((_event_log(rec), _stats_tuple(stats)))
    finally:
        dag.uuid = real_uuid
    if out[0][0] == "EXC" or out[1][0] == "EXC":
        if out[0] != out[1]:
            return "C07:one_run_raised_the_other_did_not"
        path_done()
        return ""
    if out[0][0] != out[1][0]:
        k = 0
        while k < len(out[0][0]) and k < len(out[1][0]) and out[0][0][k] == out[1][0][k]:
            k += 1
        return f"C07:event_log_depends_on_identifier_values@tick{k}"
    if out[0][1] != out[1][1]:
        return "C07:statistics_depend_on_identifier_values"
    if want:
        log = out[0][0]
        seen = set()
        for (new, rin, sus, asg, res) in log:
            if sus:
                seen.add("suspend")
            for r in res:
                seen.add("fail" if r[1] else "ok")
        return "REACHED" if want in seen else ""
    path_done()
    return ""


def simulate_with_counter(cfg, flat, start):
    def val(x):
        return flat[x] if isinstance(x, str) and x in flat else x
    Container.next_container_num = start
    pending = sim.build_pipes(cfg, val)
    rec = Rec()
    for (at, p, ops) in pending:
        rec.pipes[p.pipeline_id] = (p, ops)
    _CUR["rec"] = rec
    params = dict(scheduler_algo=_rec_key(cfg["algo"]), num_pools=cfg.get("pools", 1), cpus_per_pool=flat["cpus"],
                  ram_gb_per_pool=flat["ram"], ticks_per_second=cfg.get("tps", 1), duration=cfg["duration"],
                  multi_operator_containers=cfg.get("multi", True), allow_memory_overcommit=cfg.get("oc", False))
    stats = run_simulator(params, workload=ScriptedWorkload(pending))
    return stats, rec, pending, params


def back_to_back(cfg, other, cpus=4, ram=40, da=1, db=1, dc=1, ma=None, mb=None, pa=3, pb=3, ta=0, tb=0, want=""):
    """C07: a run, then an unrelated run (`other`), then the first run again: identical log and statistics."""
    flat = dict(cpus=cpus, ram=ram, da=da, db=db, dc=dc, ma=ma, mb=mb, pa=pa, pb=pb, ta=ta, tb=tb)
    res = []
    for c in (cfg, other, cfg):
        try:
            stats, rec, pending, params = simulate_with_counter(c, flat, Container.next_container_num)
            res.append((_event_log(rec), _stats_tuple(stats)))
        except Exception as e:
            res.append(("EXC", exc_name(e), _where(e)))
    if res[0] != res[2]:
        return "C07:repeated_run_differs_after_other_simulation"
    if want:
        return "REACHED" if res[0][0] != "EXC" and any(t[4] for t in res[0][0]) else ""
    path_done()
    return ""
