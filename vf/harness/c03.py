"""C03 - pool CPU/RAM conservation.  Drives the real ResourcePool with a scripted,
mostly symbolic command sequence and checks the conservation invariant after
every tick (and after every rejected command)."""
from vf.hx import *  # noqa


def _inv(pool, cap_cpu, cap_ram, overcommit, tag):
    live = list(pool.active_containers) + list(pool.suspending_containers)
    cpu = pool.avail_cpu_pool
    ram = pool.avail_ram_pool
    for c in live:
        cpu = cpu + c.assignment.cpu
        ram = ram + c.assignment.ram
    if cpu != cap_cpu:
        return f"C03:cpu_not_conserved@{tag}"
    if ram != cap_ram:
        return f"C03:ram_not_conserved@{tag}"
    if pool.avail_cpu_pool < 0:
        return f"C03:negative_free_cpu@{tag}"
    if (not overcommit) and pool.avail_ram_pool < 0:
        return f"C03:negative_free_ram@{tag}"
    # no container is held twice
    ids = [id(c) for c in live] + [id(c) for c in pool.suspended_containers]
    if len(set(ids)) != len(ids):
        return f"C03:container_listed_twice@{tag}"
    return ""


def conserve(cap_cpu, cap_ram, c1, r1, c2, r2, c3, r3, m1, m2, m3,
             d1a, d1b, d2a, d3a, t2, sus_at, overcommit, K, scale=1, want=""):
    """Three jobs.  Job 1 (2 ops, chain) is assigned at tick 0; jobs 2 and 3 (1 op
    each) are assigned together in one batch at tick t2.  A Suspend for job 1's
    container is sent at tick sus_at (-1: never), whether or not that is legal.
    All sizes may be zero/negative/oversized: rejected commands must leave the
    pool untouched."""
    reset_globals()
    seen = set()
    if scale != 1:
        # RAM sizes in units of `scale` GB (a power of two: every sum below is exact in binary64)
        cap_ram, r1, r2, r3 = cap_ram * scale, r1 * scale, r2 * scale, r3 * scale
    pool = ResourcePool(pool_id=0, cpu_pool=cap_cpu, ram_pool=cap_ram, ticks_per_second=1,
                        multi_operator_containers=True, allow_memory_overcommit=overcommit)
    p1, ops1 = mk_pipeline("p1", 3, 2, [True], [[seg_ticks(d1a, m1)], [seg_ticks(d1b, m1)]])
    p2, ops2 = mk_pipeline("p2", 3, 1, [], [[seg_ticks(d2a, m2)]])
    p3, ops3 = mk_pipeline("p3", 3, 1, [], [[seg_ticks(d3a, m3)]])
    released = {}    # id(container) -> number of times its allocation came back
    c_job1 = None
    for tick in range(K):
        batch = []
        specs = []
        if tick == 0:
            specs.append((ops1, c1, r1, "p1"))
        if tick == t2:
            specs.append((ops2, c2, r2, "p2"))
            specs.append((ops3, c3, r3, "p3"))
        for ops, c, r, pid in specs:
            try:
                batch.append(Assignment(ops=ops, cpu=c, ram=r, priority=Priority.BATCH_PIPELINE,
                                        pool_id=0, pipeline_id=pid))
            except AssertionError:
                seen.add("bad_size")
        sus = []
        if tick == sus_at and c_job1 is not None:
            sus.append(Suspend(c_job1.container_id, 0))
        before_cpu, before_ram = pool.avail_cpu_pool, pool.avail_ram_pool
        n_before = len(pool.active_containers) + len(pool.suspending_containers)
        prev_live = list(pool.active_containers) + list(pool.suspending_containers)
        # independent admission oracle (whole batch)
        need_cpu = 0
        need_ram = 0
        for a in batch:
            need_cpu = need_cpu + a.cpu
            need_ram = need_ram + a.ram
        try:
            results = pool.run_one_tick(sus, batch)
        except Exception as e:
            seen.add("rejected")
            sus_applied = 1 if (sus and c_job1 in pool.suspending_containers) else 0
            # a rejected command creates no container and moves no resources
            n_after = len(pool.active_containers) + len(pool.suspending_containers)
            if n_after != n_before:
                return "C03:rejected_command_changed_containers"
            if pool.avail_cpu_pool != before_cpu or pool.avail_ram_pool != before_ram:
                return "C03:rejected_command_moved_resources"
            r = _inv(pool, cap_cpu, cap_ram, overcommit, "rejected")
            if r:
                return r
            if batch and not sus:
                admissible = need_cpu <= before_cpu and (overcommit or need_ram <= before_ram)
                if admissible:
                    return "C03:admissible_batch_rejected:" + exc_name(e)
            if want == "rejected":
                return "REACHED"
            path_done()
            return ""
        if batch:
            seen.add("accepted")
            # accepted => the summed batch fitted
            if need_cpu > before_cpu:
                return "C03:oversold_cpu_batch_accepted"
            if (not overcommit) and need_ram > before_ram:
                return "C03:oversold_ram_batch_accepted"
            if len(batch) == 2:
                seen.add("accepted2")
        if tick == 0 and batch:
            for c in pool.active_containers:
                if c.assignment.ops is ops1:
                    c_job1 = c
        if sus:
            seen.add("suspended")
        r = _inv(pool, cap_cpu, cap_ram, overcommit, "tick")
        if r:
            return r
        # exactly-once release: a container that left active/suspending in this tick
        now_live = list(pool.active_containers) + list(pool.suspending_containers)
        for c in prev_live:
            if not any(c is x for x in now_live):
                released[id(c)] = released.get(id(c), 0) + 1
                if released[id(c)] > 1:
                    return "C03:released_twice"
        for res in results:
            seen.add("fail" if res.failed() else "ok")
        # every result's container is gone from the pool's live lists
        for res in results:
            for c in now_live:
                if c.container_id == res.container_id:
                    return "C03:result_for_live_container"
    # end of scenario: with everything finished the pool is whole again
    if not pool.active_containers and not pool.suspending_containers:
        if pool.avail_cpu_pool != cap_cpu or pool.avail_ram_pool != cap_ram:
            return "C03:idle_pool_not_whole"
    if want:
        return "REACHED" if want in seen else ""
    path_done()
    return ""


def conserve_two_suspensions(cap_cpu, cap_ram, ramA, ramB, cpuA, cpuB, dA, dB, dC, K=8, want=""):
    """Two 2-operator containers suspended right after their first operators (dA / dB ticks) plus a
    third, ordinary container (dC ticks): conservation must hold through overlapping write-outs,
    also when both end in the same tick or when the pool has no running container meanwhile."""
    reset_globals()
    pool = ResourcePool(pool_id=0, cpu_pool=cap_cpu, ram_pool=cap_ram, ticks_per_second=1)
    pa, opsA = mk_pipeline("pa", 3, 2, [True], [[seg_ticks(dA, 1)], [seg_ticks(3, 1)]])
    pb, opsB = mk_pipeline("pb", 3, 2, [True], [[seg_ticks(dB, 1)], [seg_ticks(3, 1)]])
    pc, opsC = mk_pipeline("pc", 3, 1, [], [[seg_ticks(dC, 1)]])
    try:
        batch = [Assignment(ops=opsA, cpu=cpuA, ram=ramA, priority=Priority.BATCH_PIPELINE, pool_id=0, pipeline_id="pa"),
                 Assignment(ops=opsB, cpu=cpuB, ram=ramB, priority=Priority.BATCH_PIPELINE, pool_id=0, pipeline_id="pb"),
                 Assignment(ops=opsC, cpu=1, ram=2, priority=Priority.BATCH_PIPELINE, pool_id=0, pipeline_id="pc")]
    except AssertionError:
        return ""
    seen = set()
    for t in range(K):
        sus = []
        if t == dA:
            sus.append(Suspend("c1", 0))
        if t == dB:
            sus.append(Suspend("c2", 0))
        try:
            pool.run_one_tick(sus, batch if t == 0 else [])
        except Exception:
            if t == 0:
                if want:
                    return ""
                path_done()
                return ""       # batch did not fit: not this scenario
            return "C03:admissible_suspension_rejected"
        r = _inv(pool, cap_cpu, cap_ram, False, f"tick{t}")
        if r:
            return r
        # independent model of who still holds an allocation after tick t (not read from the pool's own lists): a container
        # suspended in tick d writes out max(1, ram // 20) ticks counting tick d; the ordinary container ends in tick dC - 1
        WA = ramA // 20 if ramA // 20 >= 1 else 1
        WB = ramB // 20 if ramB // 20 >= 1 else 1
        hold_cpu = (cpuA if t < dA + WA - 1 else 0) + (cpuB if t < dB + WB - 1 else 0) + (1 if t < dC - 1 else 0)
        hold_ram = (ramA if t < dA + WA - 1 else 0) + (ramB if t < dB + WB - 1 else 0) + (2 if t < dC - 1 else 0)
        if pool.avail_cpu_pool != cap_cpu - hold_cpu or pool.avail_ram_pool != cap_ram - hold_ram:
            return "C03:allocation_not_returned_exactly_in_the_tick_the_container_ended"
        if len(pool.suspending_containers) == 2:
            seen.add("both_suspending")
        if pool.suspending_containers and not pool.active_containers:
            seen.add("suspending_only")
    if not pool.active_containers and not pool.suspending_containers:
        if pool.avail_cpu_pool != cap_cpu or pool.avail_ram_pool != cap_ram:
            return "C03:idle_pool_not_whole"
        seen.add("idle_end")
    if want:
        return "REACHED" if want in seen else ""
    path_done()
    return ""


def sim_conserve(cfg, cpus=4, ram=40, da=1, db=1, dc=1, ma=None, mb=None, pa=3, pb=3, ta=0, tb=0, want=""):
    """Conservation in full scheduler+executor simulations (every shipped scheduler)."""
    from vf.harness import sim
    return sim.run(cfg, [sim.Conserve()], cpus=cpus, ram=ram, da=da, db=db, dc=dc, ma=ma, mb=mb,
                   pa=pa, pb=pb, ta=ta, tb=tb, want=want)
