"""C11 - pool-level OOM kills take the highest scorers first and stop once usage fits."""
from vf.hx import *  # noqa


def _gt(mi, ri, mj, rj):
    """score_i > score_j  with score = m*m/r, cross-multiplied (r > 0)."""
    return mi * mi * rj > mj * mj * ri


def oom_killer(n, cap, m0, r0, m1, r1, m2, r2, m3, r3, dur0=3, K=2, sus_first=False, want=""):
    """n containers (fixed memory m_i from their first tick, allocation r_i, 1 CPU) start together in
    an overcommitted pool of `cap` GB.  Container 0 runs dur0 ticks (dur0=1: it finishes in the
    very tick the pool overflows), the others 3 ticks."""
    reset_globals()
    ms = [m0, m1, m2, m3][:n]
    rs = [r0, r1, r2, r3][:n]
    pool = ResourcePool(pool_id=0, cpu_pool=8, ram_pool=cap, ticks_per_second=1,
                        allow_memory_overcommit=True)
    asg = []
    opsl = []
    for i in range(n):
        p, ops = mk_pipeline(f"p{i}", 3, 1, [], [[seg_ticks(dur0 if i == 0 else 3, ms[i])]])
        opsl.append(ops[0])
        asg.append(Assignment(ops=ops, cpu=1, ram=rs[i], priority=Priority.BATCH_PIPELINE, pool_id=0,
                              pipeline_id=f"p{i}"))
    try:
        res = pool.run_one_tick([], asg)
    except Exception as e:
        return f"C11:exception:{exc_name(e)}"
    failed = set()
    finished = set()
    for r in res:
        i = opsl.index(r.ops[0])
        if r.failed():
            failed.add(i)
        else:
            finished.add(i)
    # model ---------------------------------------------------------------
    over = [i for i in range(n) if ms[i] > rs[i]]
    fin = [0] if (dur0 == 1 and 0 not in over) else []
    for i in over:
        if i not in failed:
            return "C11:over_limit_container_survived"
    for i in fin:
        if i in failed:
            return "C11:finished_container_killed"
        if i not in finished:
            return "C11:finished_container_not_reported"
    cand = [i for i in range(n) if i not in over and i not in fin]
    victims = [i for i in cand if i in failed]
    surv = [i for i in cand if i not in failed]
    for i in victims:
        if ms[i] <= 0:
            return "C11:zero_usage_container_killed"
    tot_all = 0
    for i in cand:
        tot_all = tot_all + ms[i]
    tot_surv = 0
    for i in surv:
        tot_surv = tot_surv + ms[i]
    if tot_all <= cap and victims:
        return "C11:kill_although_usage_fits"
    if tot_surv > cap:
        return "C11:usage_still_over_capacity"
    # no victim while a strictly higher scorer survives
    for v in victims:
        for s_ in surv:
            if ms[s_] > 0 and _gt(ms[s_], rs[s_], ms[v], rs[v]):
                return "C11:lower_score_killed_before_higher"
    # the last kill was needed: some minimal-score victim v has tot_surv + m_v > cap
    if victims:
        needed = False
        for v in victims:
            is_min = True
            for u in victims:
                if _gt(ms[v], rs[v], ms[u], rs[u]):
                    is_min = False
            if is_min and tot_surv + ms[v] > cap:
                needed = True
        if not needed:
            return "C11:unneeded_kill"
    if pool.get_consumed_ram_gb() != tot_surv:
        return "C11:reported_usage_differs"
    if want == "two_victims":
        return "REACHED" if len(victims) >= 2 else ""
    if want == "one_victim":
        return "REACHED" if len(victims) == 1 and len(surv) >= 1 else ""
    if want == "tie":
        t = False
        for v in victims:
            for s_ in surv:
                if ms[s_] > 0 and not _gt(ms[v], rs[v], ms[s_], rs[s_]) and not _gt(ms[s_], rs[s_], ms[v], rs[v]):
                    t = True
        return "REACHED" if t else ""
    if want == "over_and_pool":
        return "REACHED" if over and victims else ""
    if want:
        return ""
    path_done()
    return ""
