"""Scheduler-policy harnesses (C12, C16, C17, C18) on top of the lock-step simulation."""
from vf.harness import sim


def _run(obs, cfg, kw):
    return sim.run(cfg, obs, **kw)


def naive(cfg, cpus=4, ram=40, da=1, db=1, dc=1, ma=None, mb=None, pa=3, pb=3, ta=0, tb=0, want=""):
    return sim.run(cfg, [sim.Naive(), sim.NoCrash("C17")], cpus=cpus, ram=ram, da=da, db=db, dc=dc, ma=ma, mb=mb,
                   pa=pa, pb=pb, ta=ta, tb=tb, want=want)


def overbook(cfg, cpus=4, ram=40, da=1, db=1, dc=1, ma=None, mb=None, pa=3, pb=3, ta=0, tb=0, want=""):
    return sim.run(cfg, [sim.Overbook(), sim.NoCrash("C18")], cpus=cpus, ram=ram, da=da, db=db, dc=dc, ma=ma, mb=mb,
                   pa=pa, pb=pb, ta=ta, tb=tb, want=want)


def prio_pool(cfg, cpus=4, ram=40, da=1, db=1, dc=1, ma=None, mb=None, pa=3, pb=3, ta=0, tb=0, want=""):
    return sim.run(cfg, [sim.PrioPool(), sim.NoCrash("C16")], cpus=cpus, ram=ram, da=da, db=db, dc=dc, ma=ma, mb=mb,
                   pa=pa, pb=pb, ta=ta, tb=tb, want=want)


def priority(cfg, cpus=4, ram=40, da=1, db=1, dc=1, ma=None, mb=None, pa=3, pb=3, ta=0, tb=0, want=""):
    pooled = cfg["algo"] == "priority-pool"
    return sim.run(cfg, [sim.PriorityRound(pooled=pooled), sim.NoCrash("C12")], cpus=cpus, ram=ram, da=da, db=db, dc=dc,
                   ma=ma, mb=mb, pa=pa, pb=pb, ta=ta, tb=tb, want=want)


def nocrash(cfg, cpus=4, ram=40, da=1, db=1, dc=1, ma=None, mb=None, pa=3, pb=3, ta=0, tb=0, want=""):
    return sim.run(cfg, [sim.NoCrash("C08"), sim.Conserve()], cpus=cpus, ram=ram, da=da, db=db, dc=dc, ma=ma, mb=mb,
                   pa=pa, pb=pb, ta=ta, tb=tb, want=want)
