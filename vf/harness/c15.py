"""C15 - the workload generator emits well-formed pipelines that follow its parameters
(and C07/A2: the generated workload depends only on workload parameters, tick rate and seed)."""
from vf.hx import *  # noqa
import numpy as np
from eudoxia.workload.workload import WorkloadGenerator

# documented prototypes: (baseline_cpu_seconds, scaling, storage_read_gb), from most I/O heavy to most CPU heavy
PROTOS = [(1, "const", 55), (2, "sqrt", 55), (5, "linear3", 45), (15, "linear3", 37.5),
          (20, "linear7", 30), (40, "linear7", 20), (80, "squared", 10)]
QUERY_PROTO = (15, "linear3", 35)
LAWS = {}


def _law_name(seg):
    if not LAWS:
        for k, f in Segment.SCALING_FUNCS.items():
            LAWS[f] = k
    return LAWS.get(seg.scaling_func)


def proto_index(seg):
    key = (seg.baseline_cpu_seconds, _law_name(seg), seg.storage_read_gb)
    for i, p in enumerate(PROTOS):
        if p == key:
            return i
    return None


def expected_index(val):
    """prototype for a later operator given val = cpu_io_ratio + z (clamped below at -1)."""
    if val < -1:
        val = -1
    if val < -0.5:
        return 1
    if val < 0:
        return 2
    if val < 0.5:
        return 3
    if val < 1:
        return 4
    if val < 1.5:
        return 5
    return 6


class StubRng:
    """M4: normal(loc, scale) = loc + scale*z, z taken from a per-role sequence (operator-count draws,
    prototype draws, gap draws - the role is the generator method that asks); when a sequence is used
    up the draw is the mean (z = 0).  choice returns the element selected by the next pick (a pick
    with probability 0 makes the scenario invalid)."""
    ROLES = {"generate_pipelines": "count", "generate_segment_not_heavy_io": "proto", "generate_segment": "proto",
             "run_one_tick": "gap"}

    def __init__(self, zc, zp, zg, picks):
        self.seq = {"count": list(zc), "proto": list(zp), "gap": list(zg), "other": []}
        self.pos = {"count": 0, "proto": 0, "gap": 0, "other": 0}
        self.picks = list(picks)
        self.pi = 0
        self.invalid = False

    def z_at(self, role, i):
        s_ = self.seq[role]
        return s_[i] if i < len(s_) else 0.0

    def normal(self, loc=0.0, scale=1.0):
        import sys
        role = self.ROLES.get(sys._getframe(1).f_code.co_name, "other")
        z = self.z_at(role, self.pos[role])
        self.pos[role] += 1
        return loc + scale * z

    default_pick = 0

    def pick_at(self, i):
        return self.picks[i] if i < len(self.picks) else self.default_pick

    conf = None       # configured (interactive, query, batch) probabilities, set by the harness
    seen_p = None     # the probability vector the generator last handed to choice

    def choice(self, a, p=None):
        k = self.pick_at(self.pi)
        self.pi += 1
        if p is not None:
            self.seen_p = [float(x) for x in p]
        if self.conf is not None:
            if not (self.conf[k] > 0):
                self.invalid = True       # the stub picked a class the configuration excludes
        elif p is not None and not (p[k] > 0):
            self.invalid = True
        return a[k]


def _params(tps, wmean, npipes, nops, ratio, probs, **extra):
    ip, qp, bp = probs
    d = dict(waiting_seconds_mean=wmean, num_pipelines=npipes, num_operators=nops, num_segs=1, cpu_io_ratio=ratio,
             random_seed=1, batch_prob=bp, query_prob=qp, interactive_prob=ip, ticks_per_second=tps)
    d.update(extra)
    return d


def gen_structure(tps, wmean, npipes, nops, ratio, probs, c0=0, c1=0, c2=0, zc0=0.0, zc1=0.0, zp0=0.0, zp1=0.0, zp2=0.0,
                  zg0=0.0, K=6, want=""):
    """Run the real generator for K ticks with stubbed draws; check every arrival event."""
    g = WorkloadGenerator(**_params(tps, wmean, npipes, nops, ratio, probs))
    rng = StubRng([zc0, zc1][:npipes], [zp0, zp1, zp2], [zg0], [c0, c1, c2][:npipes])
    rng.default_pick = [k for k in range(3) if probs[k] > 0][0]      # later events: first class that can occur
    rng.conf = list(probs)
    g.rng = rng
    mean_ticks = int(wmean * tps)      # exact on the chosen domains (dyadic or integral)
    seen_ids = set()
    seen = set()
    last_event = None
    expected_gap = None
    vals = [Priority.INTERACTIVE.value, Priority.QUERY.value, Priority.BATCH_PIPELINE.value]
    node_ids = []
    for t in range(K):
        pos = dict(rng.pos)
        pi = rng.pi
        ps = g.run_one_tick()
        if rng.invalid:
            return ""
        # another generator with the same parameters is built between the events (sensitivity sampling, comparison runs):
        # that must not disturb this one - in particular the identifiers it hands out stay fresh
        WorkloadGenerator(**_params(tps, wmean, npipes, nops, ratio, probs))
        for p in ps:
            for nid in [getattr(p, "id", None)] + [o.id for o in p.values]:
                if nid is not None:
                    if nid in node_ids:
                        return "C15:identifier_reused_across_events"
                    node_ids.append(nid)
        if rng.seen_p is not None:
            # priorities follow the configured probabilities: the class distribution used is the configured one (normalised)
            tot = probs[0] + probs[1] + probs[2]
            if len(rng.seen_p) != 3 or any(abs(rng.seen_p[k] - probs[k] / tot) > 1e-12 for k in range(3)):
                return "C15:class_probabilities_differ_from_configuration"
        if not ps:
            if last_event is not None and expected_gap is not None and t - last_event >= expected_gap:
                return "C15:event_missing_after_gap"
            continue
        if last_event is not None:
            gap = t - last_event
            if gap < 1:
                return "C15:events_less_than_one_tick_apart"
            if expected_gap is not None and gap != expected_gap:
                return "C15:gap_differs_from_draw"
            seen.add("second_event")
        last_event = t
        if len(ps) != npipes:
            return "C15:event_with_wrong_number_of_pipelines"
        for p in ps:
            if p.pipeline_id in seen_ids:
                return "C15:pipeline_id_reused"
            seen_ids.add(p.pipeline_id)
            k = rng.pick_at(pi)
            pi += 1
            if probs[k] == 0:
                return "C15:class_with_probability_zero_generated"
            if p.priority.value != vals[k]:
                return "C15:priority_differs_from_class_draw"
            ops = list(p.values)
            if p.priority == Priority.QUERY:
                seen.add("query")
                if len(ops) != 1:
                    return "C15:query_pipeline_with_several_operators"
                segs = ops[0].get_segments()
                if len(segs) != 1 or (segs[0].baseline_cpu_seconds, _law_name(segs[0]), segs[0].storage_read_gb) != QUERY_PROTO:
                    return "C15:query_operator_not_the_query_prototype"
                if segs[0].memory_gb is not None:
                    return "C15:prototype_with_fixed_memory"
                continue
            z = rng.z_at("count", pos["count"])
            pos["count"] += 1
            draw = nops + (nops / 4) * z
            n_exp = int(draw)
            if n_exp < 1:
                n_exp = 1
                seen.add("floor_at_one")
            if len(ops) != n_exp:
                return "C15:operator_count_differs_from_draw"
            if len(ops) >= 3:
                seen.add("long_chain")
            for j, op in enumerate(ops):
                if j == 0:
                    if op.parents:
                        return "C15:first_operator_has_parents"
                else:
                    if len(op.parents) != 1 or op.parents[0] is not ops[j - 1]:
                        return "C15:pipeline_is_not_a_chain"
                segs = op.get_segments()
                if len(segs) != 1:
                    return "C15:operator_without_exactly_one_segment"
                idx = proto_index(segs[0])
                if idx is None:
                    return "C15:segment_not_a_documented_prototype"
                if segs[0].memory_gb is not None:
                    return "C15:prototype_with_fixed_memory"
                if j == 0:
                    if idx != 0:
                        return "C15:first_operator_not_io_heavy"
                else:
                    zz = rng.z_at("proto", pos["proto"])
                    pos["proto"] += 1
                    if idx != expected_index(ratio + zz):
                        return "C15:later_operator_prototype_differs_from_draw"
                    if idx >= 4:
                        seen.add("cpu_heavy")
        # the gap draw
        z = rng.z_at("gap", pos["gap"])
        pos["gap"] += 1
        if pos != rng.pos or pi != rng.pi:
            return "C15:generator_used_a_different_number_of_draws"
        w = int(mean_ticks + (mean_ticks / 4) * z)
        if w <= 0:
            w = mean_ticks
        expected_gap = w + 1 if w >= 1 else 1
        if expected_gap > 2:
            seen.add("long_gap")
    if want:
        return "REACHED" if want in seen else ""
    path_done()
    return ""


def ratio_monotone(tps, nops, r1, r2, zc0, zp0=0.0, zp1=0.0, zp2=0.0, want=""):
    """Same draws, cpu_io_ratio r1 <= r2: every later operator under r2 is at least as CPU-heavy as
    under r1 (prototype index), i.e. raising the ratio never shifts the mix towards I/O."""
    outs = []
    for r in (r1, r2):
        g = WorkloadGenerator(**_params(tps, 5.0, 1, nops, r, (0.0, 0.0, 1.0)))
        g.rng = StubRng([zc0], [zp0, zp1, zp2], [], [2])
        ps = g.run_one_tick()
        if len(ps) != 1:
            return "C15:event_with_wrong_number_of_pipelines"
        outs.append([proto_index(op.get_segments()[0]) for op in ps[0].values])
    a, b = outs
    if len(a) != len(b):
        return "C15:operator_count_depends_on_cpu_io_ratio"
    strictly = False
    for j in range(1, len(a)):
        if a[j] is None or b[j] is None:
            return "C15:segment_not_a_documented_prototype"
        if b[j] < a[j]:
            return "C15:raising_cpu_io_ratio_made_operator_more_io_heavy"
        if b[j] > a[j]:
            strictly = True
    if want == "strict":
        return "REACHED" if strictly else ""
    if want:
        return ""
    path_done()
    return ""


def _shape(ps):
    out = []
    for p in ps:
        out.append((p.pipeline_id, p.priority.value,
                    tuple((len(o.parents), tuple((s.baseline_cpu_seconds, _law_name(s), s.storage_read_gb, s.memory_gb)
                                                 for s in o.get_segments())) for o in p.values)))
    return out


def workload_independence(seed, tps, pools, cpus, ram, multi, oc, algo_i, K=40, want=""):
    """C07: same workload parameters + tick rate + seed, different scheduler/executor settings =>
    identical generated workload (real numpy generator, no stub)."""
    algos = ["naive", "priority", "priority-pool", "overbook", "rest"]
    base = _params(tps, 1.0, 2, 3, 0.5, (0.3, 0.1, 0.6), random_seed=seed)
    a = dict(base, num_pools=8, cpus_per_pool=64, ram_gb_per_pool=256, multi_operator_containers=True,
             allow_memory_overcommit=False, scheduler_algo="priority", duration=600)
    b = dict(base, num_pools=pools, cpus_per_pool=cpus, ram_gb_per_pool=ram, multi_operator_containers=multi,
             allow_memory_overcommit=oc, scheduler_algo=algos[algo_i], duration=5, rest_poll_interval=0.5)
    ga, gb = WorkloadGenerator(**a), WorkloadGenerator(**b)
    n = 0
    for t in range(K):
        pa_, pb_ = ga.run_one_tick(), gb.run_one_tick()
        if _shape(pa_) != _shape(pb_):
            return "C07:generated_workload_depends_on_scheduler_or_executor_settings"
        n += len(pa_)
    if want:
        return "REACHED" if n >= 4 else ""
    path_done()
    return ""


def seed_passthrough(seed, want=""):
    """The seed reaches numpy's default_rng unchanged, exactly once."""
    calls = []
    real = np.random.default_rng

    def rec(s=None):
        calls.append(s)
        return real(0)
    np.random.default_rng = rec
    try:
        WorkloadGenerator(**_params(1, 1.0, 1, 1, 0.5, (0.3, 0.1, 0.6), random_seed=seed))
    finally:
        np.random.default_rng = real
    if len(calls) != 1:
        return "C07:generator_created_several_random_streams"
    if calls[0] is not seed and calls[0] != seed:
        return "C07:seed_changed_before_reaching_the_generator"
    if want:
        return "REACHED"
    path_done()
    return ""
