"""C20, structural clauses of the trace tools: the real snap_command / jitter_command are run on a trace whose
*structure* is symbolic (number of pipelines, operators per pipeline, arrival of each pipeline incl. ties and
descending order, the draw the random generator returns for each pipeline, the amount of jitter, the tick rate),
with the file system replaced by an in-memory one (tools.open / tools.Path) and numpy's generator by a stub (M4).
Arrivals, draws and rates are dyadic, so the exact result (floor to the grid, arrival + draw) is representable and
can be demanded with equality (M1)."""
import csv
import io

from vf.hx import *  # noqa
import eudoxia.tools as T

ARR = [0.0, 0.25, 0.5, 1.0, 1.75, 2.5, 3.0, 10.25]           # dyadic arrivals (menu, M8)
DELTAS = [0.0, 0.5, 2.0, 8.0]
FRACS = [0.0, 0.25, 0.5, 1.0]                                # draw = FRACS[k] * delta (uniform(0, delta) in [0, delta])
RATES = [1, 2, 4, 8]
PIDS = ["p1", "p10", "p2", "b", "a7"]                        # identifiers whose string order differs from file order
LAWS = ["const", "linear3", "sqrt"]
HEADER = "pipeline_id,arrival_seconds,priority,operator_id,parents,baseline_cpu_seconds,cpu_scaling,memory_gb,storage_read_gb"


class _FS:
    def __init__(self):
        self.files = {}


class _Out(io.StringIO):
    def __init__(self, fs, name):
        super().__init__(newline="")
        self._fs, self._name = fs, name

    def close(self):
        self._fs.files[self._name] = self.getvalue()
        super().close()


def _install(fs):
    class FakePath:
        def __init__(self, p):
            self.p = str(p.p if isinstance(p, FakePath) else p)

        def exists(self):
            return self.p in fs.files

        def resolve(self):
            return self.p

        def __str__(self):
            return self.p

        def __fspath__(self):
            return self.p

    def fake_open(p, mode="r", newline=None, **kw):
        name = str(p)
        if "w" in mode:
            return _Out(fs, name)
        return io.StringIO(fs.files[name])
    saved = (T.__dict__.get("open"), T.Path, T.print if "print" in T.__dict__ else None)
    T.open = fake_open
    T.Path = FakePath
    T.print = lambda *a, **k: None
    return saved


def _restore(saved):
    o, P, pr = saved
    if o is None:
        T.__dict__.pop("open", None)
    else:
        T.open = o
    T.Path = P
    if pr is None:
        T.__dict__.pop("print", None)
    else:
        T.print = pr


class _Draws:
    """numpy Generator stub: uniform(lo, hi) returns lo + frac*(hi-lo) for the next scripted fraction."""
    def __init__(self, fracs):
        self.fracs, self.i = fracs, 0
        self.calls = []

    def uniform(self, lo=0.0, hi=1.0, size=None):
        f = self.fracs[self.i % len(self.fracs)]
        self.i += 1
        self.calls.append((lo, hi))
        return lo + f * (hi - lo)


def _trace(n, ks, arrs, blank_mem):
    rows = []
    for i in range(n):
        pid = PIDS[i]
        for j in range(ks[i]):
            arrival = repr(ARR[arrs[i]]) if j == 0 else ""
            prio = ["QUERY", "INTERACTIVE", "BATCH_PIPELINE"][i % 3] if j == 0 else ""
            parents = "" if j == 0 else (f"op{j}" if j == 1 else f"op{j};op1")
            mem = "" if (blank_mem and j % 2 == 0) else repr(0.5 * (i + j))
            rows.append([pid, arrival, prio, f"op{j + 1}", parents, repr(1.5 + i + 0.125 * j), LAWS[(i + j) % 3], mem, repr(2.0 * j + i)])
    return HEADER + "\n" + "\n".join(",".join(r) for r in rows) + "\n", rows


def _groups(rows):
    """consecutive runs of the same pipeline id"""
    out = []
    for r in rows:
        if out and out[-1][0] == r["pipeline_id"]:
            out[-1][1].append(r)
        else:
            out.append((r["pipeline_id"], [r]))
    return out


def tools_trace(tool, n, k1, k2, k3, a1, a2, a3, f1, f2, f3, di, ri, blank_mem=True, want=""):
    """tool 0 = snap at RATES[ri]; tool 1 = jitter with delta DELTAS[di] and draws FRACS[f_i]*delta."""
    path_once = False
    ks, arrs, fr = [k1, k2, k3][:n], [a1, a2, a3][:n], [FRACS[f1], FRACS[f2], FRACS[f3]][:n]
    text, _ = _trace(n, ks, arrs, blank_mem)
    fs = _FS()
    fs.files["/in.csv"] = text
    saved = _install(fs)
    real_rng = T.np.random.default_rng
    draws = _Draws(fr)
    seeds = []

    def fake_rng(seed=None, *a, **k):
        seeds.append(seed)
        return draws
    try:
        try:
            if tool == 0:
                T.snap_command("/in.csv", "/out.csv", RATES[ri], force=False)
            else:
                T.np.random.default_rng = fake_rng
                T.jitter_command("/in.csv", "/out.csv", DELTAS[di], seed=11, force=False)
        except (Exception, SystemExit) as e:
            return f"C20:tool_raised:{exc_name(e)}"
        finally:
            T.np.random.default_rng = real_rng
    finally:
        _restore(saved)
    if fs.files.get("/in.csv") != text:
        return "C20:tool_changed_its_input_file"
    if "/out.csv" not in fs.files:
        return "C20:tool_wrote_no_output"
    rin = list(csv.DictReader(io.StringIO(text)))
    out_text = fs.files["/out.csv"]
    if out_text.split("\n", 1)[0].strip() != HEADER:
        return "C20:tool_changed_the_header"
    rout = list(csv.DictReader(io.StringIO(out_text)))
    if len(rin) != len(rout):
        return "C20:tool_changed_row_count"
    gin, gout = _groups(rin), _groups(rout)
    if len(gin) != len(gout) or sorted(g[0] for g in gin) != sorted(g[0] for g in gout):
        return "C20:tool_lost_or_split_a_pipeline"
    by_in = {g[0]: g[1] for g in gin}
    first_in = {g[0]: i for i, g in enumerate(gin)}
    new_arr = []
    amounts = []
    for pid, rows in gout:
        src = by_in[pid]
        if len(src) != len(rows):
            return "C20:tool_changed_pipeline_rows"
        for x, y in zip(src, rows):
            for col in x:
                if col != "arrival_seconds" and x[col] != y[col]:
                    return f"C20:tool_changed_column_{col}"
        if any(y["arrival_seconds"].strip() for y in rows[1:]):
            return "C20:tool_set_arrival_on_later_row"
        if not rows[0]["arrival_seconds"].strip():
            return "C20:tool_removed_an_arrival"
        a0, a1_ = float(src[0]["arrival_seconds"]), float(rows[0]["arrival_seconds"])
        i = first_in[pid]
        if tool == 0:
            tps = RATES[ri]
            want_a = (int(a0 * tps)) / tps          # exact: a0, tps dyadic, a0 >= 0
            if a1_ != want_a:
                return "C20:snap_result_is_not_the_tick_boundary_at_or_below"
        else:
            amounts.append(a1_ - a0)               # exact on the dyadic menus
        new_arr.append(a1_)
    if tool == 0:
        if [g[0] for g in gin] != [g[0] for g in gout]:
            return "C20:snap_reordered_pipelines"
    else:
        for x, y in zip(new_arr, new_arr[1:]):
            if x > y:
                return "C20:jitter_output_not_in_ascending_arrival_order"
        # every pipeline got one of the generator's draws, each draw used once (which pipeline gets which draw is
        # not promised; that the choice is the same in every process is checked natively under several hash seeds)
        if sorted(amounts) != sorted(f * DELTAS[di] for f in fr):
            return "C20:jitter_amounts_are_not_the_generator_draws"
        if seeds != [11]:
            return "C20:jitter_does_not_seed_its_generator_with_the_given_seed"
        if len(draws.calls) != n:
            return "C20:jitter_draws_not_one_per_pipeline"
        for lo, hi in draws.calls:
            if lo != 0 or hi != DELTAS[di]:
                return "C20:jitter_draw_range_is_not_[0,delta]"
    path_done()
    if want == "reordered":
        return "REACHED" if tool == 1 and [g[0] for g in gin] != [g[0] for g in gout] else ""
    if want == "moved":
        return "REACHED" if tool == 0 and any(float(x[1][0]["arrival_seconds"]) != float(y[1][0]["arrival_seconds"]) for x, y in zip(gin, gout)) else ""
    if want == "tie":
        return "REACHED" if tool == 1 and n >= 2 and len(set(new_arr)) < len(new_arr) else ""
    return ""
