"""C10 - suspension only between operators, lasts RAM/20 s (>= 1 tick), returns work intact."""
from vf.hx import *  # noqa


def suspend_protocol(n, d0, d1, d2, ram, s, s2, dB, rB, K=12, reassign=True, tps=1, want=""):
    """Container A (n operators, durations d0..d2 ticks, allocation `ram` GB, 1 CPU) and a
    bystander container B (1 operator, dB ticks, rB GB) start at tick 0 in a 200 GB / 4 CPU pool.
    Suspend(A) is requested in the scheduling phase of tick s and again at tick s2 (-1: never).
    """
    reset_globals()
    durs = [d0, d1, d2][:n]
    # commands go through the Executor (the public entry point), which routes them to its pool
    # durations d* are in ticks; at tps 2 or 4 the seconds value d/tps is exact in binary64
    ex = Executor(num_pools=1, cpus_per_pool=4, ram_gb_per_pool=200, ticks_per_second=tps)
    pool = ex.pools[0]
    sec = (lambda d: d) if tps == 1 else (lambda d: d / tps)
    pa, opsA = mk_pipeline("pa", 3, n, chain_bits(n), [[seg_ticks(sec(durs[j]), 1)] for j in range(n)])
    pb, opsB = mk_pipeline("pb", 3, 1, [], [[seg_ticks(sec(dB), 1)]])
    aA = Assignment(ops=opsA, cpu=1, ram=ram, priority=Priority.BATCH_PIPELINE, pool_id=0, pipeline_id="pa")
    aB = Assignment(ops=opsB, cpu=2, ram=rB, priority=Priority.BATCH_PIPELINE, pool_id=0, pipeline_id="pb")
    # model ----------------------------------------------------------------
    ends = []            # tick in which operator j of A completes
    acc = 0
    for j in range(n):
        acc = acc + durs[j]
        ends.append(acc - 1)
    W = (ram * tps) // 20
    if W < 1:
        W = 1
    state = "running"    # running | suspending | suspended | finished
    sus_tick = None
    done_at_sus = 0
    free_cpu = 4
    free_ram = 200
    b_live = True
    seen = set()
    idA = "c1"
    for t in range(K):
        asg = [aA, aB] if t == 0 else []
        sus = [Suspend(idA, 0)] if (t == s or t == s2) else []
        before_states = [o.state() for o in opsA]
        before = (pool.avail_cpu_pool, pool.avail_ram_pool, len(pool.active_containers),
                  len(pool.suspending_containers), len(pool.suspended_containers))
        admissible = False
        if sus and state == "running" and t > 0:
            for j in range(n - 1):
                if ends[j] == t - 1:
                    admissible = True
                    done_at_sus = j + 1
        try:
            res = ex.run_one_tick(sus, asg)
            raised = False
        except Exception:
            raised = True
        if sus:
            if raised and admissible:
                return "C10:admissible_suspension_rejected"
            if (not raised) and (not admissible):
                return "C10:inadmissible_suspension_accepted"
        elif raised:
            return "C10:unexpected_exception"
        if raised:
            seen.add("rejected")
            after = (pool.avail_cpu_pool, pool.avail_ram_pool, len(pool.active_containers),
                     len(pool.suspending_containers), len(pool.suspended_containers))
            if after != before:
                return "C10:rejected_request_changed_pool"
            if [o.state() for o in opsA] != before_states:
                return "C10:rejected_request_changed_operators"
            if want:
                return "REACHED" if want in seen else ""
            path_done()
            return ""
        if t == 0:
            free_cpu = free_cpu - 3
            free_ram = free_ram - ram - rB
        # bystander
        if b_live and t == dB - 1:
            b_live = False
            free_cpu = free_cpu + 2
            free_ram = free_ram + rB
        if sus and admissible:
            state = "suspending"
            sus_tick = t
            seen.add("accepted")
        for r in res:
            if r.container_id == idA:
                if state != "running":
                    return "C10:result_for_suspended_container"
                state = "finished"
                free_cpu = free_cpu + 1
                free_ram = free_ram + ram
                if t != ends[n - 1]:
                    return "C10:container_finished_at_wrong_tick"
        if state == "suspending" or state == "suspended":
            # no progress, finished operators stay completed
            for j in range(n):
                st = opsA[j].state()
                if j < done_at_sus:
                    if st != S.COMPLETED:
                        return "C10:finished_operator_not_completed"
                elif state == "suspending" and t < sus_tick + W - 1:
                    if st != S.SUSPENDING:
                        return "C10:operator_not_suspending_during_write_out"
        if state == "suspending":
            if t < sus_tick + W - 1:
                if len(pool.suspending_containers) != 1:
                    return "C10:container_left_suspending_early"
                if pool.suspending_containers[0].suspend_ticks != W:
                    return "C10:write_out_length_differs"
            else:
                # write-out ends in this tick: exactly the allocation comes back, once
                if len(pool.suspending_containers) != 0 or len(pool.suspended_containers) != 1:
                    return "C10:suspension_did_not_end_on_time"
                state = "suspended"
                seen.add("ended")
                free_cpu = free_cpu + 1
                free_ram = free_ram + ram
                for j in range(done_at_sus, n):
                    if opsA[j].state() != S.PENDING:
                        return "C10:unfinished_operator_not_pending_after_suspension"
        if pool.avail_cpu_pool != free_cpu or pool.avail_ram_pool != free_ram:
            return "C10:free_resources_differ_from_model"
        if state == "suspended" and reassign and t == sus_tick + W - 1:
            # the remaining work can be assigned again and runs to completion
            rest = opsA[done_at_sus:]
            try:
                a2 = Assignment(ops=rest, cpu=1, ram=5, priority=Priority.BATCH_PIPELINE, pool_id=0, pipeline_id="pa")
            except Exception:
                return "C10:suspended_work_not_assignable"
            need = 0
            for j in range(done_at_sus, n):
                need = need + durs[j]
            fin = False
            for u in range(need):
                try:
                    r2 = ex.run_one_tick([], [a2] if u == 0 else [])
                except Exception:
                    return "C10:resumed_work_raised"
                for r in r2:
                    if r.container_id == idA:
                        return "C10:result_for_suspended_container"
                    if r.ops is rest:
                        fin = not r.failed()
            if not fin or any(o.state() != S.COMPLETED for o in opsA):
                return "C10:resumed_work_did_not_complete"
            seen.add("resumed")
            break
    if want:
        return "REACHED" if want in seen else ""
    path_done()
    return ""


def two_suspensions(ramA, ramB, cpuA, cpuB, dA, dB, K=10, same_pipeline=False, tag="C10", want=""):
    """Two 2-operator containers in one pool; each is suspended in the scheduling phase right after
    its first operator finished (first operators last dA / dB ticks, so the two requests come in the
    same or in different ticks).  Each write-out lasts max(1, ram//20) ticks and returns exactly its
    own allocation - also when both end in the same tick."""
    reset_globals()
    ex = Executor(num_pools=1, cpus_per_pool=8, ram_gb_per_pool=300, ticks_per_second=1)
    pool = ex.pools[0]
    if same_pipeline:
        # one pipeline made of two independent chains A1->A2, B1->B2, split over two containers
        pp, ops4 = mk_pipeline("pa", 3, 4, [True, False, False, False, False, True],
                               [[seg_ticks(dA, 1)], [seg_ticks(3, 1)], [seg_ticks(dB, 1)], [seg_ticks(3, 1)]])
        opsA, opsB = ops4[0:2], ops4[2:4]
        pidB = "pa"
    else:
        pa, opsA = mk_pipeline("pa", 3, 2, [True], [[seg_ticks(dA, 1)], [seg_ticks(3, 1)]])
        pb, opsB = mk_pipeline("pb", 3, 2, [True], [[seg_ticks(dB, 1)], [seg_ticks(3, 1)]])
        pidB = "pb"
    aA = Assignment(ops=opsA, cpu=cpuA, ram=ramA, priority=Priority.BATCH_PIPELINE, pool_id=0, pipeline_id="pa")
    aB = Assignment(ops=opsB, cpu=cpuB, ram=ramB, priority=Priority.BATCH_PIPELINE, pool_id=0, pipeline_id=pidB)
    WA = ramA // 20 if ramA // 20 >= 1 else 1
    WB = ramB // 20 if ramB // 20 >= 1 else 1
    free_cpu, free_ram = 8 - cpuA - cpuB, 300 - ramA - ramB
    endA, endB = dA + WA - 1, dB + WB - 1      # tick in which the write-out ends (request at tick d)
    seen = set()
    for t in range(K):
        sus = []
        if t == dA:
            sus.append(Suspend("c1", 0))
        if t == dB:
            sus.append(Suspend("c2", 0))
        try:
            res = ex.run_one_tick(sus, [aA, aB] if t == 0 else [])
        except Exception as e:
            return f"C10:admissible_suspension_rejected:{exc_name(e)}"
        if res:
            return "C10:result_for_suspended_container"
        if t == endA:
            free_cpu, free_ram = free_cpu + cpuA, free_ram + ramA
        if t == endB:
            free_cpu, free_ram = free_cpu + cpuB, free_ram + ramB
        if endA == endB and t == endA:
            seen.add("same_tick")
        if pool.avail_cpu_pool != free_cpu or pool.avail_ram_pool != free_ram:
            return f"{tag}:free_resources_differ_from_model_with_two_suspensions"
        n_sus = (1 if dA <= t < endA else 0) + (1 if dB <= t < endB else 0)
        if len(pool.suspending_containers) != n_sus:
            return f"{tag}:number_of_suspending_containers_differs_from_model"
        # while a container is still writing out, its unfinished operator stays SUSPENDING (it is still owned by that
        # live container); once the write-out ended it is PENDING
        for (ops_, d_, end_) in ((opsA, dA, endA), (opsB, dB, endB)):
            st = ops_[1].state()
            if d_ <= t < end_ and st != S.SUSPENDING:
                return f"{tag}:operator_of_a_container_that_is_still_suspending_was_released"
            if t >= end_ and t >= d_ and st != S.PENDING:
                return f"{tag}:unfinished_operator_not_pending_after_suspension"
    if opsA[1].state() != S.PENDING or opsB[1].state() != S.PENDING:
        return "C10:unfinished_operator_not_pending_after_suspension"
    if opsA[0].state() != S.COMPLETED or opsB[0].state() != S.COMPLETED:
        return "C10:finished_operator_not_completed"
    if want:
        return "REACHED" if want in seen else ""
    path_done()
    return ""
