"""Lock-step simulation harness shared by the scheduler-level properties.

The real Scheduler (any registered algorithm) and the real Executor are driven
exactly like run_simulator's main loop drives them; between the phases a set of
property-specific observers checks invariants.  Scenario parameters that a
partition keeps concrete live in `cfg`; the flat arguments (cpus, ram, da..dc,
ma, mb, pa, pb, ta, tb) may be symbolic and are referenced from cfg by name.
"""
from vf.hx import *  # noqa
from eudoxia.scheduler import Scheduler
from eudoxia.scheduler.decorators import SCHEDULING_ALGOS, INIT_ALGOS

SHAPES = {
    "single": (1, []),
    "chain2": (2, [True]),
    "chain3": (3, [True, False, True]),
    "fanout3": (3, [True, True, False]),          # 0->1, 0->2
    "fanin3": (3, [False, True, True]),           # 0->2, 1->2
    "tworoots2": (2, [False]),
    "diamond": (4, [True, True, False, False, True, True]),   # 0->1,0->2,1->3,2->3
    "chain4": (4, [True, False, True, False, False, True]),
    "fork4": (4, [True, True, False, True, False, False]),    # 0->1,0->2,0->3
}


def _starter_key():
    key = "verifstarter"
    if key not in SCHEDULING_ALGOS:
        from eudoxia.__main__ import SCHEDULER_TEMPLATE
        src = SCHEDULER_TEMPLATE.format(scheduler_name=key)
        exec(compile(src, "<starter-template>", "exec"), {"__name__": "verifstarter_mod"})
    return key


class World:
    """Everything an observer may look at."""

    def __init__(self):
        self.tick = -1
        self.pipes = []          # arrived pipelines, arrival order
        self.all_ops = []        # (pipeline, op) of arrived pipelines
        self.executor = None
        self.scheduler = None
        self.results = []        # results of the last executor tick
        self.seen = set()        # coverage facts for reachability twins
        self.params = None


def build_pipes(cfg, val):
    """cfg['pipes'] = list of dict(shape, prio, at, durs=[...], mems=[...]); entries may be names
    of flat arguments (resolved through val)."""
    out = []
    for i, pc in enumerate(cfg["pipes"]):
        n, bits = SHAPES[pc["shape"]]
        durs = pc.get("durs") or [1] * n
        mems = pc.get("mems") or [None] * n
        reads = pc.get("reads") or [0] * n
        segs = []
        for j in range(n):
            d = val(durs[j])
            m = val(mems[j])
            r = val(reads[j])
            segs.append([dict(baseline_cpu_seconds=d, cpu_scaling="const", memory_gb=m, storage_read_gb=r)])
        prio = val(pc["prio"])
        p, ops = mk_pipeline(f"p{i+1}", prio, n, bits, segs)
        out.append((val(pc["at"]), p, ops))
    return out


def run(cfg, observers, cpus=4, ram=40, da=1, db=1, dc=1, ma=None, mb=None, pa=3, pb=3, ta=0, tb=0, want=""):
    reset_globals()
    flat = dict(cpus=cpus, ram=ram, da=da, db=db, dc=dc, ma=ma, mb=mb, pa=pa, pb=pb, ta=ta, tb=tb)

    def val(x):
        return flat[x] if isinstance(x, str) and x in flat else x

    algo = cfg["algo"]
    if algo == "starter":
        algo = _starter_key()
    tps = cfg.get("tps", 1)
    K = cfg["K"]
    params = dict(scheduler_algo=algo, num_pools=cfg.get("pools", 1), cpus_per_pool=cpus,
                  ram_gb_per_pool=ram, ticks_per_second=tps,
                  multi_operator_containers=cfg.get("multi", True),
                  allow_memory_overcommit=cfg.get("oc", False), duration=K / tps)
    w = World()
    w.params = params
    pending = build_pipes(cfg, val)
    try:
        w.executor = Executor(**params)
        w.scheduler = Scheduler(w.executor, **params)
    except Exception as e:
        return f"SIM:init_exception:{exc_name(e)}"
    for ob in observers:
        ob.start(w)
    results = []
    for tick in range(K):
        w.tick = tick
        new = []
        for (at, p, ops) in pending:
            if at == tick:
                p.runtime_status().record_arrival(tick)
                new.append(p)
                w.pipes.append(p)
                for op in ops:
                    w.all_ops.append((p, op))
        for ob in observers:
            r = ob.before_sched(w, results, new)
            if r:
                return r
        try:
            sus, asg = w.scheduler.run_one_tick(results, new)
        except Exception as e:
            r = ""
            for ob in observers:
                r = r or ob.on_sched_exception(w, e)
            if r:
                return r
            w.seen.add("sched_exc")
            break
        for ob in observers:
            r = ob.after_sched(w, sus, asg, new)
            if r:
                return r
        try:
            results = w.executor.run_one_tick(sus, asg)
        except Exception as e:
            r = ""
            for ob in observers:
                r = r or ob.on_exec_exception(w, e, sus, asg)
            if r:
                return r
            w.seen.add("exec_exc")
            break
        w.results = results
        for res in results:
            w.seen.add("fail" if res.failed() else "ok")
        if sus:
            w.seen.add("suspend")
        for ob in observers:
            r = ob.after_exec(w, results, sus, asg)
            if r:
                return r
    for ob in observers:
        r = ob.finish(w)
        if r:
            return r
    if want:
        return "REACHED" if want in w.seen else ""
    path_done()
    return ""


class Observer:
    def start(self, w):
        pass

    def before_sched(self, w, results, new):
        return ""

    def after_sched(self, w, sus, asg, new):
        return ""

    def after_exec(self, w, results, sus, asg):
        return ""

    def on_sched_exception(self, w, e):
        return ""

    def on_exec_exception(self, w, e, sus, asg):
        return ""

    def finish(self, w):
        return ""


class NoCrash(Observer):
    """C08: a shipped scheduler never makes the simulation raise."""

    def __init__(self, pid="C08"):
        self.pid = pid

    def _where(self, e):
        tb = e.__traceback__
        last = None
        while tb is not None:
            fn = tb.tb_frame.f_code.co_filename
            if "/eudoxia/" in fn:
                last = (fn.split("/eudoxia/")[-1], tb.tb_frame.f_code.co_name)
            tb = tb.tb_next
        return f"{last[0]}:{last[1]}" if last else "?"

    def on_sched_exception(self, w, e):
        return f"{self.pid}:scheduler_raised:{exc_name(e)}@{self._where(e)}"

    def on_exec_exception(self, w, e, sus, asg):
        return f"{self.pid}:executor_raised:{exc_name(e)}@{self._where(e)}"


class Deps(Observer):
    """C01: RUNNING/COMPLETED only with all parents COMPLETED; completion is monotone."""

    def __init__(self):
        self.done = set()

    def _check(self, w, tag):
        for (p, op) in w.all_ops:
            st = op.state()
            if st == S.RUNNING or st == S.COMPLETED:
                for par in op.parents:
                    if par.state() != S.COMPLETED:
                        return f"C01:started_before_parent@{tag}"
            if id(op) in self.done and st != S.COMPLETED:
                return f"C01:completed_op_changed@{tag}"
            if st == S.COMPLETED:
                self.done.add(id(op))
            if st == S.RUNNING:
                w.seen.add("running")
        return ""

    def after_sched(self, w, sus, asg, new):
        return self._check(w, "sched")

    def after_exec(self, w, results, sus, asg):
        return self._check(w, "exec")

    def on_exec_exception(self, w, e, sus, asg):
        # a rejected start must not leave the child running
        return self._check(w, "exec_exception")


class Lifecycle(Observer):
    """C02: one live container per operator; COMPLETED is final and never re-assigned."""

    def __init__(self):
        self.done = set()

    def _live(self, w):
        out = []
        for pool in w.executor.pools:
            out.extend(pool.active_containers)
            out.extend(pool.suspending_containers)
        return out

    def after_sched(self, w, sus, asg, new):
        for a in asg:
            for op in a.ops:
                if id(op) in self.done:
                    return "C02:completed_op_assigned_again"
        seen = set()
        for a in asg:
            for op in a.ops:
                if id(op) in seen:
                    return "C02:op_in_two_assignments"
                seen.add(id(op))
        return ""

    def after_exec(self, w, results, sus, asg):
        owner = set()
        for c in self._live(w):
            for op in c.operators[c._current_op_idx:]:
                if id(op) in owner:
                    return "C02:op_in_two_live_containers"
                owner.add(id(op))
        for (p, op) in w.all_ops:
            st = op.state()
            if id(op) in self.done and st != S.COMPLETED:
                return "C02:completed_op_left_completed"
            if st == S.COMPLETED:
                self.done.add(id(op))
        # histogram stays consistent
        for p in w.pipes:
            rs = p.runtime_status()
            for st in S:
                n = 0
                for o, s_ in rs.operator_states.items():
                    if s_ == st:
                        n += 1
                if rs.state_counts[st] != n:
                    return "C02:state_counts_out_of_sync"
        return ""


class Conserve(Observer):
    """C03 at simulation level."""

    def after_exec(self, w, results, sus, asg):
        oc = w.params["allow_memory_overcommit"]
        for pool in w.executor.pools:
            cpu = pool.avail_cpu_pool
            ram = pool.avail_ram_pool
            for c in list(pool.active_containers) + list(pool.suspending_containers):
                cpu = cpu + c.assignment.cpu
                ram = ram + c.assignment.ram
            if cpu != pool.max_cpu_pool:
                return "C03:cpu_not_conserved"
            if ram != pool.max_ram_pool:
                return "C03:ram_not_conserved"
            if pool.avail_cpu_pool < 0:
                return "C03:negative_free_cpu"
            if (not oc) and pool.avail_ram_pool < 0:
                return "C03:negative_free_ram"
        return ""

    def on_exec_exception(self, w, e, sus, asg):
        return f"C03:shipped_scheduler_decision_rejected:{exc_name(e)}"


class Memory(Observer):
    """C04 at simulation level."""

    def after_exec(self, w, results, sus, asg):
        for pool in w.executor.pools:
            tot = 0
            for c in pool.active_containers:
                u = c.get_current_memory_usage()
                if u > c.assignment.ram:
                    return "C04:container_over_allocation"
                tot = tot + u
            if tot > pool.max_ram_pool:
                return "C04:pool_over_capacity"
            if pool.get_consumed_ram_gb() != tot:
                return "C04:reported_usage_differs"
        return ""
