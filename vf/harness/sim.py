"""Lock-step simulation harness shared by the scheduler-level properties.

The real Scheduler (any registered algorithm) and the real Executor are driven
exactly like run_simulator's main loop drives them; between the phases a set of
property-specific observers checks invariants.  Scenario parameters that a
partition keeps concrete live in `cfg`; the flat arguments (cpus, ram, da..dc,
ma, mb, pa, pb, ta, tb) may be symbolic and are referenced from cfg by name.
"""
from vf.hx import *  # noqa
from eudoxia.scheduler import Scheduler
from eudoxia.scheduler.decorators import SCHEDULING_ALGOS, INIT_ALGOS

SHAPES = {
    "single": (1, []),
    "chain2": (2, [True]),
    "chain3": (3, [True, False, True]),
    "fanout3": (3, [True, True, False]),          # 0->1, 0->2
    "fanin3": (3, [False, True, True]),           # 0->2, 1->2
    "tworoots2": (2, [False]),
    "diamond": (4, [True, True, False, False, True, True]),   # 0->1,0->2,1->3,2->3
    "chain4": (4, [True, False, True, False, False, True]),
    "fork4": (4, [True, True, False, True, False, False]),    # 0->1,0->2,0->3
    "triangle": (3, [True, True, True]),                      # 0->1,0->2,1->2 (skip-level edge 0->2)
    "twochains": (4, [False, True, False, False, True, False]),   # 0->2, 1->3 (two independent chains, roots listed first)
    "deepskip": (4, [True, False, True, True, False, True]),      # 0->1,1->2,2->3 and 0->3 (parents of 3 differ in depth by two)
    "tworootskip": (4, [False, True, True, True, False, True]),   # 0->2,1->2,0->3,2->3 (two roots, skip-level 0->3)
}


def _starter_key():
    key = "verifstarter"
    if key not in SCHEDULING_ALGOS:
        from eudoxia.__main__ import SCHEDULER_TEMPLATE
        src = SCHEDULER_TEMPLATE.format(scheduler_name=key)
        exec(compile(src, "<starter-template>", "exec"), {"__name__": "verifstarter_mod"})
    return key


class World:
    """Everything an observer may look at."""

    def __init__(self):
        self.tick = -1
        self.pipes = []          # arrived pipelines, arrival order
        self.all_ops = []        # (pipeline, op) of arrived pipelines
        self.executor = None
        self.scheduler = None
        self.results = []        # results of the last executor tick
        self.seen = set()        # coverage facts for reachability twins
        self.params = None


def build_pipes(cfg, val):
    """cfg['pipes'] = list of dict(shape, prio, at, durs=[...], mems=[...]); entries may be names
    of flat arguments (resolved through val)."""
    out = []
    for i, pc in enumerate(cfg["pipes"]):
        n, bits = SHAPES[pc["shape"]]
        durs = list(pc.get("durs") or []) + [1] * n          # shorter lists are padded with the defaults
        mems = list(pc.get("mems") or []) + [None] * n
        reads = list(pc.get("reads") or []) + [0] * n
        segs = []
        for j in range(n):
            d = val(durs[j])
            m = val(mems[j])
            r = val(reads[j])
            sj = [dict(baseline_cpu_seconds=d, cpu_scaling="const", memory_gb=m, storage_read_gb=r)]
            if pc.get("tails"):
                # a trailing second segment: no CPU time, reads tails[j] GB (floor(GB/20) ticks at 1 tick/s - may be zero ticks)
                sj.append(dict(baseline_cpu_seconds=0, cpu_scaling="const", memory_gb=m if m is not None else 1, storage_read_gb=val(pc["tails"][j])))
            segs.append(sj)
        prio = val(pc["prio"])
        p, ops = mk_pipeline(f"p{i+1}", prio, n, bits, segs)
        out.append((val(pc["at"]), p, ops))
    return out


def run(cfg, observers, cpus=4, ram=40, da=1, db=1, dc=1, ma=None, mb=None, pa=3, pb=3, ta=0, tb=0, want=""):
    reset_globals()
    flat = dict(cpus=cpus, ram=ram, da=da, db=db, dc=dc, ma=ma, mb=mb, pa=pa, pb=pb, ta=ta, tb=tb)

    def val(x):
        return flat[x] if isinstance(x, str) and x in flat else x

    algo = cfg["algo"]
    if algo == "starter":
        algo = _starter_key()
    tps = cfg.get("tps", 1)
    K = cfg["K"]
    params = dict(scheduler_algo=algo, num_pools=cfg.get("pools", 1), cpus_per_pool=cpus,
                  ram_gb_per_pool=(ram * cfg["ram_scale"] if "ram_scale" in cfg else ram), ticks_per_second=tps,
                  multi_operator_containers=cfg.get("multi", True),
                  allow_memory_overcommit=cfg.get("oc", False), duration=K / tps)
    w = World()
    w.params = params
    pending = build_pipes(cfg, val)
    try:
        w.executor = Executor(**params)
        w.scheduler = Scheduler(w.executor, **params)
    except Exception as e:
        return f"SIM:init_exception:{exc_name(e)}"
    for ob in observers:
        ob.start(w)
    results = []
    for tick in range(K):
        w.tick = tick
        new = []
        for (at, p, ops) in pending:
            if at == tick:
                p.runtime_status().record_arrival(tick)
                new.append(p)
                w.pipes.append(p)
                for op in ops:
                    w.all_ops.append((p, op))
        for ob in observers:
            r = ob.before_sched(w, results, new)
            if r:
                return r
        try:
            sus, asg = w.scheduler.run_one_tick(results, new)
        except Exception as e:
            r = ""
            for ob in observers:
                r = r or ob.on_sched_exception(w, e)
            if r:
                return r
            w.seen.add("sched_exc")
            break
        for ob in observers:
            r = ob.after_sched(w, sus, asg, new)
            if r:
                return r
        try:
            results = w.executor.run_one_tick(sus, asg)
        except Exception as e:
            r = ""
            for ob in observers:
                r = r or ob.on_exec_exception(w, e, sus, asg)
            if r:
                return r
            w.seen.add("exec_exc")
            break
        w.results = results
        for res in results:
            w.seen.add("fail" if res.failed() else "ok")
        if sus:
            w.seen.add("suspend")
        for ob in observers:
            r = ob.after_exec(w, results, sus, asg)
            if r:
                return r
    for ob in observers:
        r = ob.finish(w)
        if r:
            return r
    if want:
        return "REACHED" if want in w.seen else ""
    path_done()
    return ""


class Observer:
    def start(self, w):
        pass

    def before_sched(self, w, results, new):
        return ""

    def after_sched(self, w, sus, asg, new):
        return ""

    def after_exec(self, w, results, sus, asg):
        return ""

    def on_sched_exception(self, w, e):
        return ""

    def on_exec_exception(self, w, e, sus, asg):
        return ""

    def finish(self, w):
        return ""


class NoCrash(Observer):
    """C08: a shipped scheduler never makes the simulation raise."""

    def __init__(self, pid="C08"):
        self.pid = pid

    def _where(self, e):
        tb = e.__traceback__
        last = None
        while tb is not None:
            fn = tb.tb_frame.f_code.co_filename
            if "/eudoxia/" in fn:
                last = (fn.split("/eudoxia/")[-1], tb.tb_frame.f_code.co_name)
            tb = tb.tb_next
        return f"{last[0]}:{last[1]}" if last else "?"

    def on_sched_exception(self, w, e):
        return f"{self.pid}:scheduler_raised:{exc_name(e)}@{self._where(e)}"

    def on_exec_exception(self, w, e, sus, asg):
        return f"{self.pid}:executor_raised:{exc_name(e)}@{self._where(e)}"


class Deps(Observer):
    """C01: RUNNING/COMPLETED only with all parents COMPLETED; completion is monotone."""

    def __init__(self):
        self.done = set()

    def _check(self, w, tag):
        for (p, op) in w.all_ops:
            st = op.state()
            if st == S.RUNNING or st == S.COMPLETED:
                for par in decl_parents(op):
                    if par.state() != S.COMPLETED:
                        return f"C01:started_before_parent@{tag}"
            if id(op) in self.done and st != S.COMPLETED:
                return f"C01:completed_op_changed@{tag}"
            if st == S.COMPLETED:
                self.done.add(id(op))
            if st == S.RUNNING:
                w.seen.add("running")
        return ""

    def after_sched(self, w, sus, asg, new):
        return self._check(w, "sched")

    def after_exec(self, w, results, sus, asg):
        return self._check(w, "exec")

    def on_exec_exception(self, w, e, sus, asg):
        # a rejected start must not leave the child running
        return self._check(w, "exec_exception")


class Lifecycle(Observer):
    """C02: one live container per operator; COMPLETED is final and never re-assigned."""

    def __init__(self):
        self.done = set()

    def _live(self, w):
        out = []
        for pool in w.executor.pools:
            out.extend(pool.active_containers)
            out.extend(pool.suspending_containers)
        return out

    def after_sched(self, w, sus, asg, new):
        for a in asg:
            for op in a.ops:
                if id(op) in self.done:
                    return "C02:completed_op_assigned_again"
        seen = set()
        for a in asg:
            for op in a.ops:
                if id(op) in seen:
                    return "C02:op_in_two_assignments"
                seen.add(id(op))
        return ""

    def after_exec(self, w, results, sus, asg):
        owner = set()
        for c in self._live(w):
            for op in c.operators[c._current_op_idx:]:
                if id(op) in owner:
                    return "C02:op_in_two_live_containers"
                owner.add(id(op))
        for (p, op) in w.all_ops:
            st = op.state()
            if id(op) in self.done and st != S.COMPLETED:
                return "C02:completed_op_left_completed"
            if st == S.COMPLETED:
                self.done.add(id(op))
        # histogram stays consistent
        for p in w.pipes:
            rs = p.runtime_status()
            for st in S:
                n = 0
                for o, s_ in rs.operator_states.items():
                    if s_ == st:
                        n += 1
                if rs.state_counts[st] != n:
                    return "C02:state_counts_out_of_sync"
        return ""


class Conserve(Observer):
    """C03 at simulation level."""

    def after_exec(self, w, results, sus, asg):
        oc = w.params["allow_memory_overcommit"]
        for pool in w.executor.pools:
            cpu = pool.avail_cpu_pool
            ram = pool.avail_ram_pool
            for c in list(pool.active_containers) + list(pool.suspending_containers):
                cpu = cpu + c.assignment.cpu
                ram = ram + c.assignment.ram
            if cpu != pool.max_cpu_pool:
                return "C03:cpu_not_conserved"
            if ram != pool.max_ram_pool:
                return "C03:ram_not_conserved"
            if pool.avail_cpu_pool < 0:
                return "C03:negative_free_cpu"
            if (not oc) and pool.avail_ram_pool < 0:
                return "C03:negative_free_ram"
        return ""

    def on_exec_exception(self, w, e, sus, asg):
        return f"C03:shipped_scheduler_decision_rejected:{exc_name(e)}"


class Memory(Observer):
    """C04 at simulation level."""

    def after_exec(self, w, results, sus, asg):
        for pool in w.executor.pools:
            tot = 0
            for c in pool.active_containers:
                u = c.get_current_memory_usage()
                if u > c.assignment.ram:
                    return "C04:container_over_allocation"
                tot = tot + u
            if tot > pool.max_ram_pool:
                return "C04:pool_over_capacity"
            if pool.get_consumed_ram_gb() != tot:
                return "C04:reported_usage_differs"
        return ""


def _ready(op):
    return all(par.state() == S.COMPLETED for par in decl_parents(op))


def _snapshot(w):
    return [(pool.avail_cpu_pool, pool.avail_ram_pool) for pool in w.executor.pools]


class FirstInOrder:
    """Shared helper: pipelines get their FIRST container in arrival order (optionally per class)."""

    def __init__(self, per_class):
        self.per_class = per_class
        self.started = []       # pipelines in order of first assignment

    def note(self, w, asg, tag):
        for a in asg:
            p = a.ops[0].pipeline
            if not any(p is q for q in self.started):
                self.started.append(p)
        # started order must be a prefix-compatible subsequence of arrival order
        classes = [None]
        if self.per_class:
            classes = [Priority.QUERY, Priority.INTERACTIVE, Priority.BATCH_PIPELINE]
        for cl in classes:
            arr = [p for p in w.pipes if cl is None or p.priority == cl]
            st = [p for p in self.started if cl is None or p.priority == cl]
            # every started pipeline: all earlier arrivals of the class have started too
            for k, p in enumerate(arr):
                if any(p is q for q in st):
                    for e in arr[:k]:
                        if not any(e is q for q in st):
                            return f"{tag}:first_container_out_of_arrival_order"
            idx = [next(i for i, q in enumerate(arr) if q is p) for p in st]
            if idx != sorted(idx):
                return f"{tag}:first_container_out_of_arrival_order"
        return ""


class Naive(Observer):
    """C17."""

    def __init__(self):
        self.fio = FirstInOrder(per_class=False)

    def before_sched(self, w, results, new):
        self.snap = _snapshot(w)
        self.failed_before = set(id(p) for p in w.pipes
                                 if p.runtime_status().state_counts[S.FAILED] > 0)
        return ""

    def after_sched(self, w, sus, asg, new):
        if sus:
            return "C17:naive_suspended_a_container"
        per_pool = {}
        for a in asg:
            per_pool[a.pool_id] = per_pool.get(a.pool_id, 0) + 1
            if per_pool[a.pool_id] > 1:
                return "C17:two_containers_for_one_pool_in_one_tick"
            if not (0 <= a.pool_id < len(self.snap)):
                return "C17:assignment_to_unknown_pool"
            cpu0, ram0 = self.snap[a.pool_id]
            if a.cpu != cpu0 or a.ram != ram0:
                return "C17:container_not_given_all_free_resources"
            if id(a.ops[0].pipeline) in self.failed_before:
                return "C17:work_assigned_after_a_failure"
            if not w.params["multi_operator_containers"]:
                if len(a.ops) != 1:
                    return "C17:single_operator_mode_got_several_operators"
                if not _ready(a.ops[0]):
                    return "C17:single_operator_not_ready"
            if len(a.ops) >= 2:
                w.seen.add("multi_asg")
        if len(asg) >= 2:
            w.seen.add("two_pools")
        return self.fio.note(w, asg, "C17")


class Overbook(Observer):
    """C18."""

    def __init__(self):
        self.failures = {}

    def before_sched(self, w, results, new):
        self.snap = _snapshot(w)
        for r in results:
            if r.failed():
                pid = r.ops[0].pipeline.pipeline_id
                self.failures[pid] = self.failures.get(pid, 0) + 1
                if self.failures[pid] >= 3:
                    w.seen.add("abandoned")
        self.triggered = bool(results) or bool(new)
        return ""

    def after_sched(self, w, sus, asg, new):
        if sus:
            return "C18:overbook_suspended_a_container"
        used = [0] * len(self.snap)
        for a in asg:
            if len(a.ops) != 1:
                return "C18:container_with_several_operators"
            if not _ready(a.ops[0]):
                return "C18:operator_not_ready"
            if a.cpu != 1:
                return "C18:container_cpu_not_one"
            if not (0 <= a.pool_id < len(self.snap)):
                return "C18:assignment_to_unknown_pool"
            if a.ram != w.executor.pools[a.pool_id].max_ram_pool:
                return "C18:memory_limit_not_whole_pool"
            if self.failures.get(a.ops[0].pipeline.pipeline_id, 0) >= 3:
                return "C18:abandoned_pipeline_assigned_again"
            used[a.pool_id] += 1
        for i in range(len(self.snap)):
            if used[i] > self.snap[i][0]:
                return "C18:more_containers_than_free_cpus"
        if self.triggered:
            free = any(self.snap[i][0] - used[i] >= 1 for i in range(len(self.snap)))
            if free:
                for (p, op) in w.all_ops:
                    if self.failures.get(p.pipeline_id, 0) >= 3:
                        continue
                    if op.state() in (S.PENDING, S.FAILED) and _ready(op):
                        return "C18:ready_operator_waits_while_cpu_free"
        return ""

    def after_exec(self, w, results, sus, asg):
        for pool in w.executor.pools:
            if len(pool.active_containers) > pool.max_cpu_pool:
                return "C18:more_containers_than_cpus"
        return ""


class PrioPool(Observer):
    """C16."""

    def __init__(self):
        self.retry = {}      # id(op) -> (list of ops to retry together, old_cpu, old_ram)
        self.packed = {}     # id(op) -> operators of the assignment that last carried op (the observer's own record of the
                             # container's contents, not what the result says it contained)

    def before_sched(self, w, results, new):
        for r in results:
            if r.failed():
                full = self.packed.get(id(r.ops[0]), list(r.ops)) if r.ops else []
                rest = [op for op in full if op.state() != S.COMPLETED]
                for op in rest:
                    self.retry[id(op)] = (rest, r.cpu, r.ram, r.pool_id)
                w.seen.add("oom")
        return ""

    def after_sched(self, w, sus, asg, new):
        if sus:
            return "C16:priority_pool_suspended_a_container"
        for a in asg:
            pr = a.ops[0].pipeline.priority
            want_pool = 1 if pr == Priority.BATCH_PIPELINE else 0
            if a.pool_id != want_pool:
                return "C16:container_on_wrong_pool"
            if a.priority != pr:
                return "C16:assignment_priority_differs_from_pipeline"
            for op in a.ops:
                if op.pipeline is not a.ops[0].pipeline:
                    return "C16:mixed_pipelines"
            hit = [op for op in a.ops if id(op) in self.retry]
            for op in a.ops:
                self.packed[id(op)] = list(a.ops)
            if hit:
                rest, oc, orr, opool = self.retry[id(hit[0])]
                if len(rest) != len(a.ops) or any(x is not y for x, y in zip(rest, a.ops)):
                    return "C16:retry_is_not_exactly_the_unfinished_operators"
                pool = w.executor.pools[a.pool_id]
                if 2 * oc * 2 >= pool.max_cpu_pool or 2 * orr * 2 >= pool.max_ram_pool:
                    return "C16:retry_assigned_although_doubled_request_reaches_half_pool"
                w.seen.add("retry")
                for op in a.ops:
                    self.retry.pop(id(op), None)
        return ""


class PriorityRound(Observer):
    """C12 (also used for pool 0 of priority-pool with pooled=True)."""

    def __init__(self, pooled=False):
        self.pooled = pooled
        self.fio = FirstInOrder(per_class=True)

    def before_sched(self, w, results, new):
        self.snap = _snapshot(w)
        return ""

    def _pools_for(self, w, prio):
        n = len(self.snap)
        if not self.pooled:
            return list(range(n))
        return [1] if prio == Priority.BATCH_PIPELINE else [0]

    def after_sched(self, w, sus, asg, new):
        used_cpu = [0] * len(self.snap)
        used_ram = [0] * len(self.snap)
        for a in asg:
            if 0 <= a.pool_id < len(self.snap):
                used_cpu[a.pool_id] = used_cpu[a.pool_id] + a.cpu
                used_ram[a.pool_id] = used_ram[a.pool_id] + a.ram
        waiting = []        # ready PENDING operators left after the round
        for (p, op) in w.all_ops:
            if op.state() == S.PENDING and _ready(op):
                waiting.append((p, op))
        # (i) strict priority
        for a in asg:
            for (p, op) in waiting:
                if p.priority.value < a.priority.value:
                    if (not self.pooled) or (set(self._pools_for(w, p.priority)) & {a.pool_id}):
                        return "C12:lower_priority_assigned_while_higher_waits"
        # (iii) work conservation
        for (p, op) in waiting:
            for i in self._pools_for(w, p.priority):
                fc = self.snap[i][0] - used_cpu[i]
                fr = self.snap[i][1] - used_ram[i]
                if fc > 0 and fr > 0:
                    return "C12:ready_operator_waits_while_pool_has_room"
            w.seen.add("waiting")
        # (iv) suspensions
        if sus:
            if self.pooled:
                return "C12:priority_pool_suspended_a_container"
            qwait = 0
            for (p, op) in w.all_ops:
                if p.priority == Priority.QUERY and op.state() in (S.PENDING, S.FAILED) and _ready(op):
                    qwait += 1
            if qwait == 0:
                return "C12:suspension_without_waiting_query"
            if len(sus) > qwait:
                return "C12:more_suspensions_than_waiting_query_jobs"
            names = set()
            for s_ in sus:
                if not (0 <= s_.pool_id < len(w.executor.pools)):
                    return "C12:suspend_names_unknown_pool"
                c = w.executor.pools[s_.pool_id].get_container_by_id(s_.container_id)
                if c is None:
                    return "C12:suspend_names_container_that_is_not_running"
                if c.priority == Priority.QUERY:
                    return "C12:query_container_suspended"
                if not c.can_suspend_container():
                    return "C12:suspend_not_at_operator_boundary"
                if s_.container_id in names:
                    return "C12:container_suspended_twice"
                names.add(s_.container_id)
        # (ii) arrival order inside a class
        return self.fio.note(w, asg, "C12")
