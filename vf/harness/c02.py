"""C02 - operator life cycle follows the documented state machine."""
from vf.hx import *  # noqa
from vf.harness import sim

# The documented table, written here independently of VALID_TRANSITIONS.
ST = [S.PENDING, S.ASSIGNED, S.RUNNING, S.SUSPENDING, S.COMPLETED, S.FAILED]
DOC = {
    (0, 1),                 # PENDING -> ASSIGNED
    (1, 2), (1, 3), (1, 5),  # ASSIGNED -> RUNNING | SUSPENDING | FAILED
    (2, 4), (2, 5),          # RUNNING -> COMPLETED | FAILED
    (3, 0),                 # SUSPENDING -> PENDING
    (5, 1),                 # FAILED -> ASSIGNED (retry)
}


MASKS = [[], [0], [1], [0, 1], [2], [0, 2], [1, 2], [0, 1, 2], []]


def _hist(rs):
    h = {}
    for st in ST:
        h[st] = 0
    for _o, st in rs.operator_states.items():
        h[st] += 1
    return h


def transition_step(n, e0, e1, e2, s0, s1, s2, who, target, want=""):
    """One request from an arbitrary state vector (written directly: the outcome of a single
    request does not depend on how the vector was reached)."""
    bits = [e0, e1, e2][:n_edge_bits(n)]
    p, ops = mk_pipeline("p", 3, n, bits, [[seg_ticks(1)] for _ in range(n)])
    rs = p.runtime_status()
    sv = [s0, s1, s2][:n]
    for j in range(n):
        st = ST[sv[j]]
        rs.state_counts[rs.operator_states[ops[j]]] -= 1
        rs.operator_states[ops[j]] = st
        rs.state_counts[st] += 1
    if who >= n:
        return ""
    op = ops[who]
    before = [o.state() for o in ops]
    counts_before = dict(rs.state_counts)
    cur = sv[who]
    allowed = (cur, target) in DOC
    if allowed and target == 2:
        for par in op.parents:
            if par.state() != S.COMPLETED:
                allowed = False
    ok_check, _why = rs.check_transition(op, ST[target])
    if bool(ok_check) != allowed:
        return f"C02:check_transition_disagrees_with_table:{ST[cur].value}->{ST[target].value}"
    try:
        op.transition(ST[target])
        accepted = True
    except AssertionError:
        accepted = False
    except Exception as e:
        return f"C02:unexpected_exception:{exc_name(e)}"
    if accepted != allowed:
        if accepted:
            return f"C02:undocumented_transition_accepted:{ST[cur].value}->{ST[target].value}"
        return f"C02:documented_transition_refused:{ST[cur].value}->{ST[target].value}"
    after = [o.state() for o in ops]
    if not accepted:
        if after != before:
            return "C02:refused_request_changed_state"
        if dict(rs.state_counts) != counts_before:
            return "C02:refused_request_changed_counts"
    else:
        for j in range(n):
            exp = ST[target] if j == who else before[j]
            if after[j] != exp:
                return "C02:accepted_request_wrong_state"
    if dict(rs.state_counts) != _hist(rs):
        return "C02:state_counts_not_histogram"
    if rs.is_pipeline_successful() != all(s == S.COMPLETED for s in after):
        return "C02:is_pipeline_successful_wrong"
    if want == "accepted":
        return "REACHED" if accepted else ""
    if want == "refused_dep":
        return "REACHED" if ((cur, target) in DOC and not accepted) else ""
    path_done()
    return ""


def request_history(n, e0, e1, e2, w0, t0, w1, t1, w2, t2, w3=0, t3=0, depth=3, grow_at=-1, want=""):
    """A sequence of `depth` requests from the initial state."""
    bits = [e0, e1, e2][:n_edge_bits(n)]
    p, ops = mk_pipeline("p", 3, n, bits, [[seg_ticks(1)] for _ in range(n)])
    rs = p.runtime_status()
    model = [0] * n
    reqs = [(w0, t0), (w1, t1), (w2, t2), (w3, t3)][:depth]
    n_acc = 0
    for step, (who, tgt) in enumerate(reqs):
        if who >= n:
            return ""
        if step == grow_at:
            # a late stage is appended to the pipeline (public API) after its operators have made progress: whatever the
            # library does with the new operator, the operators that exist keep their states - completion is final
            try:
                p.new_operator([ops[n - 1]])
            except Exception as e:
                return f"C02:new_operator_raised:{exc_name(e)}"
            rs = p.runtime_status()
            for j in range(n):
                try:
                    stj = ops[j].state()
                except Exception as e:
                    return f"C02:state_of_existing_operator_lost_after_new_operator:{exc_name(e)}"
                if stj != ST[model[j]]:
                    return "C02:existing_operator_changed_state_when_an_operator_was_added"
            for st_ in ST:
                if st_ != S.PENDING and rs.state_counts[st_] != sum(1 for j in range(n) if ST[model[j]] == st_):
                    return "C02:state_counts_changed_when_an_operator_was_added"
        cur = model[who]
        allowed = (cur, tgt) in DOC
        if allowed and tgt == 2:
            for par in ops[who].parents:
                if model[ops.index(par)] != 4:
                    allowed = False
        counts_before = dict(rs.state_counts)
        try:
            ops[who].transition(ST[tgt])
            accepted = True
        except AssertionError:
            accepted = False
        if accepted != allowed:
            return f"C02:history_request_{'accepted' if accepted else 'refused'}:{ST[cur].value}->{ST[tgt].value}"
        if accepted:
            if cur == 4:
                return "C02:completed_operator_left_completed"
            model[who] = tgt
            n_acc += 1
        elif dict(rs.state_counts) != counts_before:
            return "C02:refused_request_changed_counts"
        for j in range(n):
            if ops[j].state() != ST[model[j]]:
                return "C02:state_differs_from_model"
        if grow_at < 0 and dict(rs.state_counts) != _hist(rs):
            return "C02:state_counts_not_histogram"
    if want == "grown":
        return "REACHED" if 0 < grow_at < depth and n_acc >= 2 and any(m == 4 for m in model) else ""
    if want == "deep":
        return "REACHED" if n_acc == depth else ""
    path_done()
    return ""


def live_containers(n, e0, e1, e2, cmd0, cmd1, cmd2, cmd3, cmd4, d0, d1, d2, alloc, mem, K=6, want=""):
    """Executor level.  cmd_t (one per tick, 0 <= t < 5) encodes a command on the pipeline's
    operators: 0 = nothing; 1..7 = assign the subset of operators given by the bit mask (in
    index order) as one container, whatever their state; 8 = suspend the oldest live container.
    Inadmissible commands must be refused with an error and leave everything as it was."""
    reset_globals()
    bits = [e0, e1, e2][:n_edge_bits(n)]
    durs = [d0, d1, d2]
    p, ops = mk_pipeline("p", 3, n, bits, [[seg_ticks(durs[j], mem if j == 0 else 1)] for j in range(n)])
    rs = p.runtime_status()
    ex = Executor(num_pools=1, cpus_per_pool=8, ram_gb_per_pool=200, ticks_per_second=1)
    pool = ex.pools[0]
    cmds = [cmd0, cmd1, cmd2, cmd3, cmd4]
    done = set()
    seen = set()
    for tick in range(K):
        cmd = cmds[tick] if tick < len(cmds) else 0
        asg = []
        sus = []
        before = [o.state() for o in ops]
        if 1 <= cmd <= 7:
            subset = [ops[j] for j in MASKS[cmd] if j < n]
            if subset:
                must_refuse = any(o.state() not in (S.PENDING, S.FAILED) for o in subset)
                try:
                    asg.append(Assignment(ops=subset, cpu=1, ram=alloc, priority=Priority.BATCH_PIPELINE,
                                          pool_id=0, pipeline_id="p"))
                    if must_refuse:
                        return "C02:assignment_of_unassignable_operator_accepted"
                    seen.add("assigned")
                except AssertionError:
                    if not must_refuse:
                        return "C02:assignment_of_assignable_operators_refused"
                    # refusal may have moved the operators that preceded the offending one; the
                    # property only promises that the *refused operator* keeps its state
                    seen.add("assign_refused")
                    for j in range(n):
                        if before[j] in (S.COMPLETED, S.RUNNING, S.ASSIGNED, S.SUSPENDING) and ops[j].state() != before[j]:
                            return "C02:refused_assignment_changed_busy_operator"
                    if not want:
                        path_done()
                    return "" if not want else ("REACHED" if want in seen else "")
        elif cmd == 8:
            if pool.active_containers:
                sus.append(Suspend(pool.active_containers[0].container_id, 0))
        try:
            res = ex.run_one_tick(sus, asg)
        except AssertionError:
            seen.add("tick_refused")
            for j in range(n):
                if before[j] == S.COMPLETED and ops[j].state() != S.COMPLETED:
                    return "C02:completed_changed_on_refused_tick"
            if not want:
                path_done()
            return "" if not want else ("REACHED" if want in seen else "")
        if sus:
            seen.add("suspended")
        for r in res:
            seen.add("fail" if r.failed() else "ok")
        owner = set()
        for c in list(pool.active_containers) + list(pool.suspending_containers):
            for o in c.operators[c._current_op_idx:]:
                if id(o) in owner:
                    return "C02:op_in_two_live_containers"
                owner.add(id(o))
        for j in range(n):
            st = ops[j].state()
            if j in done and st != S.COMPLETED:
                return "C02:completed_op_left_completed"
            if st == S.COMPLETED:
                done.add(j)
            if st in (S.ASSIGNED, S.RUNNING, S.SUSPENDING) and id(ops[j]) not in owner:
                return "C02:busy_operator_without_live_container"
            if st in (S.PENDING, S.FAILED, S.COMPLETED) and id(ops[j]) in owner:
                return "C02:idle_operator_inside_live_container"
        if dict(rs.state_counts) != _hist(rs):
            return "C02:state_counts_not_histogram"
    if want:
        return "REACHED" if want in seen else ""
    path_done()
    return ""


def sim_lifecycle(cfg, cpus=4, ram=40, da=1, db=1, dc=1, ma=None, mb=None, pa=3, pb=3, ta=0, tb=0, want=""):
    return sim.run(cfg, [sim.Lifecycle()], cpus=cpus, ram=ram, da=da, db=db, dc=dc, ma=ma, mb=mb,
                   pa=pa, pb=pb, ta=ta, tb=tb, want=want)
