"""C07 - a run does not depend on the simulations that ran earlier in the process (generated workloads).

The reference is the run in a *fresh copy of the package*: every eudoxia module is dropped from sys.modules and imported
again, which resets all module-level and class-level state exactly as a new interpreter process would (numpy and the
standard library keep no eudoxia state).  The same run is then repeated in a second fresh copy after a history of other
simulations (other tick rate / seed / scheduler, real WorkloadGenerator), and the statistics must be identical."""
import logging
import os
import sys

import vf.hx  # noqa  (puts $EUDOXIA_REPO first on sys.path and silences logging)

ALGOS = ["naive", "priority", "priority-pool", "overbook"]


def _params(tps, seed, algo, cpus, duration, probs):
    return dict(duration=duration, ticks_per_second=tps, waiting_seconds_mean=1.0, num_pipelines=2, num_operators=2,
                interactive_prob=probs[0], query_prob=probs[1], batch_prob=probs[2], scheduler_algo=algo,
                num_pools=2, cpus_per_pool=cpus, ram_gb_per_pool=256, random_seed=seed)


def _in_fresh_package(seq):
    """Run the parameter sets of seq in order inside a freshly imported eudoxia; returns the statistics of each."""
    saved = {k: m for k, m in sys.modules.items() if k == "eudoxia" or k.startswith("eudoxia.")}
    for k in saved:
        del sys.modules[k]
    sys.path.insert(0, vf.hx.REPO)      # (CrossHair restores sys.path after loading the contract module)
    try:
        import eudoxia
        from eudoxia.simulator import run_simulator
        if not os.path.realpath(eudoxia.__file__).startswith(os.path.realpath(vf.hx.REPO) + os.sep):
            raise RuntimeError(f"fresh import took eudoxia from {eudoxia.__file__}, not from {vf.hx.REPO}")
        logging.disable(logging.CRITICAL)
        out = []
        for p in seq:
            try:
                st = run_simulator(dict(p)).to_dict()
                out.append(_canon(st))
            except Exception as e:      # noqa
                out.append(("EXC", type(e).__name__))
        return out
    finally:
        sys.path.remove(vf.hx.REPO)
        for k in [k for k in sys.modules if k == "eudoxia" or k.startswith("eudoxia.")]:
            del sys.modules[k]
        sys.modules.update(saved)


def _canon(x):
    if isinstance(x, dict):
        return tuple((k, _canon(x[k])) for k in sorted(x))
    if isinstance(x, (list, tuple)):
        return tuple(_canon(v) for v in x)
    if isinstance(x, float):        # includes numpy.float64; NaN must compare equal to NaN
        return repr(float(x))
    return x


def generated_history(tps_a, tps_b, seed_a, seed_b, algo_a, algo_b, cpus, dur_a=6, dur_b=14, probs=(0.2, 0.6, 0.2), want=""):
    """Run B alone vs. run B after run A (tick rate tps_a, seed seed_a, scheduler algo_a) in the same package state."""
    pa = _params(tps_a, seed_a, ALGOS[algo_a], cpus, dur_a, probs)
    pb = _params(tps_b, seed_b, ALGOS[algo_b], cpus, dur_b, probs)
    alone = _in_fresh_package([pb])
    after = _in_fresh_package([pa, pb])
    if alone[0] != after[1]:
        return "C07:run_differs_after_other_simulation_in_the_process(generated workload)"
    if want == "history_ran":
        return "REACHED" if after[0][0] != "EXC" and dict(after[0]).get("assignments", 0) >= 1 and alone[0][0] != "EXC" else ""
    if alone[0][0] == "EXC":
        return ""
    d = dict(alone[0])
    if want == "query_work":
        q = dict(d.get("pipelines_query", ()))
        return "REACHED" if q.get("arrival_count", 0) >= 1 and d.get("assignments", 0) >= 1 else ""
    if want == "completed":
        return "REACHED" if d.get("containers_completed", 0) >= 1 else ""
    if want:
        return ""
    vf.hx.path_done()
    return ""
