"""C19 - the REST bridge is transparent and keeps its protocol promises.
The real rest_init / rest_scheduler run against a stub of `requests` (M5) whose replies are built
from symbolic choices among the operators / containers offered in the request."""
from vf.hx import *  # noqa
from vf.harness import sim
from eudoxia.scheduler import Scheduler
import eudoxia.scheduler.rest as rest_mod

FORBIDDEN_LIST = ("baseline_cpu_seconds", "storage_read_gb", "cpu_scaling", "memory_gb", "segments", "values",
                  "peak_memory_gb", "io_seconds", "cpu_time")


class _Clock:
    """stand-in for the `time` module inside eudoxia.scheduler.rest: a strictly increasing counter"""

    def __init__(self):
        self.t = 0.0

    def perf_counter(self):
        self.t += 0.001
        return self.t


class _Resp:
    def __init__(self, data):
        self.data = data

    def raise_for_status(self):
        return None

    def json(self):
        return self.data


class StubServer:
    def __init__(self, choices, pools_pick, sus_flags, ram):
        self.choices = choices
        self.pools_pick = pools_pick
        self.sus_flags = sus_flags
        self.ram = ram
        self.calls = []          # (url, payload)
        self.n = 0
        self.opportunities = 0
        self.decisions = []      # per schedule call: (assign (pid, op_id, cpu, ram, pool) | None, suspend (cid, pool) | None)

    def post(self, url, json=None):
        self.calls.append((url, json))
        if url.endswith("/init"):
            return _Resp({})
        k = self.n
        self.n += 1
        cands = []
        whole = {}
        for grp in ("new_pipelines", "other_pipelines"):
            for p in json[grp]:
                for o in p["operators"]:
                    if o["is_assignable_state"]:
                        whole.setdefault(p["pipeline_id"], []).append(o["id"])
                        if o["parents_complete"]:
                            cands.append((p["pipeline_id"], p["priority"], o["id"]))
        asg = []
        dec_a = None
        c = self.choices[k] if k < len(self.choices) else 0
        if c > 0 and cands:
            pid, prio, oid = cands[0]
            # choice 1: the first ready operator alone; choice 2: every assignable operator of its pipeline
            oids = [oid] if c == 1 else list(whole[pid])
            pool = self.pools_pick[k] if k < len(self.pools_pick) else 0
            asg.append({"operator_ids": oids, "cpu": 1, "ram_gb": self.ram, "pool_id": pool, "priority": prio,
                        "is_resume": False, "force_run": False})
            dec_a = (pid, oids, 1, self.ram, pool)
        sus = []
        dec_s = None
        # sus_flags[i]: suspend at the i-th call at which some container is running
        for pl in json["pools"]:
            if pl["active_containers"] and not sus:
                i = self.opportunities
                self.opportunities += 1
                if i < len(self.sus_flags) and self.sus_flags[i]:
                    cid = pl["active_containers"][0]["container_id"]
                    sus.append({"container_id": cid, "pool_id": pl["pool_id"]})
                    dec_s = (cid, pl["pool_id"])
                break
        self.decisions.append((dec_a, dec_s))
        return _Resp({"suspensions": sus, "assignments": asg})


def _walk_keys(x, out):
    """collect dict keys (and a marker for values that are not JSON types) into the LIST out.
    (plain lists and loops on purpose: sets built under CrossHair are linear-time containers)"""
    if type(x) is dict:
        for k, v in x.items():
            out.append(k)
            _walk_keys(v, out)
    elif type(x) in (list, tuple):
        for v in x:
            _walk_keys(v, out)
    elif not (x is None or isinstance(x, (str, int, float, bool))):
        out.append("<non-json value %s>" % type(x).__name__)


def _payload_problem(pl):
    keys = []
    _walk_keys(pl, keys)
    for k in keys:
        if k in FORBIDDEN_LIST:
            return "C19:payload_reveals_operator_resource_needs"
        if k[:1] == "<":
            return "C19:payload_not_json_serialisable"
    return ""


def rest_protocol(tps, poll_ticks, c0, c1, c2, c3, c4, k0, k1, s1, s2, d0, d1, pools=2, K=8, alloc=2.5, want=""):
    reset_globals()
    real_requests = rest_mod.requests
    real_time = rest_mod.time
    rest_mod.time = _Clock()       # wall-clock timing statistics of the bridge are not part of the property
    server = StubServer([c0, c1, c2, c3, c4], [k0, k1, 0, 0, 0], [s1, s2], alloc)    # fractional sizes are admissible decisions; large ones make a write-out last several ticks
    rest_mod.requests = server
    seen = set()
    try:
        params = dict(scheduler_algo="rest", num_pools=pools, cpus_per_pool=4, ram_gb_per_pool=40, ticks_per_second=tps,
                      multi_operator_containers=True, allow_memory_overcommit=False, duration=K / tps,
                      rest_scheduler_addr="stub:1", rest_poll_interval=poll_ticks / tps)
        ex = Executor(**params)
        sch = Scheduler(ex, **params)
        if len(server.calls) != 1 or not server.calls[0][0].endswith("/init"):
            return "C19:init_not_called_exactly_once"
        p1, ops1 = mk_pipeline("p1", 3, 2, [True], [[seg_ticks(d0, 1)], [seg_ticks(d1, 1)]])
        p2, ops2 = mk_pipeline("p2", 1, 1, [], [[seg_ticks(1, 1)]])
        arrivals = {0: [p1], 2: [p2]}
        allp = {"p1": (p1, ops1), "p2": (p2, ops2)}
        known = []
        complete_reported = {}
        results = []
        last_call_tick = 0       # rest_init sets last_call_sim_time = 0.0 and current_tick counts from 1
        log = []
        for t in range(K):
            new = arrivals.get(t, [])
            for p in new:
                p.runtime_status().record_arrival(t)
            n_before = len(server.calls)
            # independent snapshot of the truth before the call
            truth_results = [dict(ops=[str(o.id) for o in r.ops], cpu=r.cpu, ram=r.ram, priority=r.priority.name, pool_id=r.pool_id,
                                  container_id=r.container_id, error=r.error) for r in results]
            truth_pools = [dict(pool_id=pl.pool_id, avail_cpu=pl.avail_cpu_pool, avail_ram_gb=pl.avail_ram_pool, max_cpu=pl.max_cpu_pool,
                                max_ram_gb=pl.max_ram_pool, active=[c.container_id for c in pl.active_containers],
                                suspending=[c.container_id for c in pl.suspending_containers]) for pl in ex.pools]
            truth_states = {pid: [o.state().value for o in ops] for pid, (p, ops) in allp.items()}
            try:
                sus, asg = sch.run_one_tick(results, new)
            except Exception as e:
                return f"C19:bridge_raised:{exc_name(e)}"
            called = len(server.calls) > n_before
            cur = t + 1       # the bridge's own tick counter
            if new or results:
                if not called:
                    return "C19:no_call_although_something_arrived_or_finished"
            else:
                due = (cur - last_call_tick) >= poll_ticks
                if called and not due:
                    return "C19:idle_call_before_poll_interval"
                if (not called) and due:
                    return "C19:no_idle_call_after_poll_interval"
            if not called:
                if sus or asg:
                    return "C19:decisions_without_a_call"
                seen.add("idle_skip")
            if called:
                if not (new or results):
                    seen.add("idle_call")
                last_call_tick = cur
                url, pl = server.calls[-1]
                if len(server.calls) != n_before + 1:
                    return "C19:several_calls_in_one_tick"
                r = _payload_problem(pl)
                if r:
                    return r
                if pl["tick"] != cur:
                    return "C19:tick_number_wrong"
                if pl["results"] != truth_results:
                    return "C19:results_in_payload_differ_from_last_tick"
                for tp, pp in zip(truth_pools, pl["pools"]):
                    if (pp["pool_id"], pp["avail_cpu"], pp["avail_ram_gb"], pp["max_cpu"], pp["max_ram_gb"]) != \
                            (tp["pool_id"], tp["avail_cpu"], tp["avail_ram_gb"], tp["max_cpu"], tp["max_ram_gb"]):
                        return "C19:pool_figures_wrong"
                    if [c["container_id"] for c in pp["active_containers"]] != tp["active"]:
                        return "C19:active_containers_wrong"
                    if [c["container_id"] for c in pp["suspending_containers"]] != tp["suspending"]:
                        return "C19:suspending_containers_wrong"
                if len(pl["pools"]) != len(truth_pools):
                    return "C19:pool_count_wrong"
                new_ids = [p["pipeline_id"] for p in pl["new_pipelines"]]
                other_ids = [p["pipeline_id"] for p in pl["other_pipelines"]]
                if any(x in other_ids for x in new_ids):
                    return "C19:new_and_other_pipelines_overlap"
                if new_ids != [p.pipeline_id for p in new]:
                    return "C19:new_pipelines_wrong"
                if sorted(other_ids) != sorted(known):
                    return "C19:other_pipelines_are_not_the_known_unfinished_ones"
                for grp in ("new_pipelines", "other_pipelines"):
                    for pj in pl[grp]:
                        pid = pj["pipeline_id"]
                        if [o["state"] for o in pj["operators"]] != truth_states[pid]:
                            return "C19:operator_states_in_payload_wrong"
                        real_p, real_ops = allp[pid]
                        if [o["id"] for o in pj["operators"]] != [str(o.id) for o in real_p.values]:
                            return "C19:operator_ids_wrong"
                        done = all(s_ == "completed" for s_ in truth_states[pid])
                        if pj["is_complete"] != done:
                            return "C19:is_complete_flag_wrong"
                        if done:
                            complete_reported[pid] = complete_reported.get(pid, 0) + 1
                            if complete_reported[pid] > 1:
                                return "C19:completed_pipeline_reported_twice"
                            seen.add("complete_reported")
                # bookkeeping of the protocol: new -> known; completed ones dropped after this call
                for p in new:
                    known.append(p.pipeline_id)
                known = [pid for pid in known if not all(s_ == "completed" for s_ in truth_states[pid])]
                # decisions executed exactly as given
                dec_a, dec_s = server.decisions[-1]
                if (dec_a is None) != (len(asg) == 0) or len(asg) > 1:
                    return "C19:assignments_differ_from_reply"
                if dec_a is not None:
                    a = asg[0]
                    if (a.pipeline_id, [str(o.id) for o in a.ops], a.cpu, a.ram, a.pool_id) != (dec_a[0], list(dec_a[1]), dec_a[2], dec_a[3], dec_a[4]):
                        return "C19:assignment_differs_from_reply"
                    seen.add("assigned")
                if (dec_s is None) != (len(sus) == 0):
                    return "C19:suspensions_differ_from_reply"
                if dec_s is not None and (sus[0].container_id, sus[0].pool_id) != dec_s:
                    return "C19:suspension_differs_from_reply"
            log.append(([(a.pipeline_id, [real_index(allp, o) for o in a.ops], a.cpu, a.ram, a.pool_id) for a in asg],
                        [(s_.container_id, s_.pool_id) for s_ in sus]))
            try:
                results = ex.run_one_tick(sus, asg)
            except Exception:
                seen.add("inadmissible_decision")
                break
            if sus:
                seen.add("suspended")
            log[-1] = log[-1] + ([(r.container_id, r.error, r.pool_id) for r in results],)
        # A2: the same decisions made by an in-process scheduler give the same results
        r = _replay_in_process(params, d0, d1, log, K)
        if r:
            return r
    finally:
        rest_mod.requests = real_requests
        rest_mod.time = real_time
    if want:
        return "REACHED" if want in seen else ""
    path_done()
    return ""


def real_index(allp, op):
    for pid, (p, ops) in allp.items():
        for j, o in enumerate(ops):
            if o is op:
                return (pid, j)
    return None


def _replay_in_process(params, d0, d1, log, K):
    reset_globals()
    ex = Executor(**params)
    p1, ops1 = mk_pipeline("p1", 3, 2, [True], [[seg_ticks(d0, 1)], [seg_ticks(d1, 1)]])
    p2, ops2 = mk_pipeline("p2", 1, 1, [], [[seg_ticks(1, 1)]])
    allp = {"p1": (p1, ops1), "p2": (p2, ops2)}
    for t, entry in enumerate(log):
        asg_l, sus_l = entry[0], entry[1]
        asg = [Assignment(ops=[allp[pid][1][j] for (pid, j) in ops], cpu=cpu, ram=ram, priority=allp[pid_][0].priority,
                          pool_id=pool, pipeline_id=pid_) for (pid_, ops, cpu, ram, pool) in asg_l]
        sus = [Suspend(cid, pool) for (cid, pool) in sus_l]
        try:
            res = ex.run_one_tick(sus, asg)
        except Exception:
            if len(entry) == 3:
                return "C19:in_process_twin_rejected_what_the_bridge_run_executed"
            return ""
        if len(entry) < 3:
            return "C19:bridge_run_rejected_what_the_in_process_twin_executed"
        if [(r.container_id, r.error, r.pool_id) for r in res] != entry[2]:
            return "C19:results_differ_from_in_process_twin"
    return ""
