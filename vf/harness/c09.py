"""C09 - every accepted assignment becomes exactly one container with exactly one outcome."""
from vf.hx import *  # noqa


def ledger(P, q0, q1, q2, t1, t2, d0, d1, d2, m0, m1, m2, sus_t, sus_pool, K=7, oc=False, alloc=10, want=""):
    """Executor with P pools (4 CPU / 40 GB each).  Three 2-operator pipelines are assigned at ticks
    0, t1, t2 with pool numbers q0, q1, q2 (any integer, possibly not a pool); container i gets
    2 CPU / 10 GB, its first operator runs d_i ticks with fixed memory m_i (so m_i > 10 => OOM), its
    second one 1 tick.  At tick sus_t a Suspend for the first container is sent to pool sus_pool."""
    reset_globals()
    ex = Executor(num_pools=P, cpus_per_pool=4, ram_gb_per_pool=40, ticks_per_second=1, allow_memory_overcommit=oc)
    specs = [(0, q0, d0, m0), (t1, q1, d1, m1), (t2, q2, d2, m2)]
    pipes = []
    for i, (at, q, d, m) in enumerate(specs):
        p, ops = mk_pipeline(f"p{i}", 3, 2, [True], [[seg_ticks(d, m)], [seg_ticks(1, 1)]])
        pipes.append((at, q, ops))
    accepted = 0
    succ = 0
    fail = 0
    suspended = 0
    seen = set()
    known = {}        # container_id -> ops
    ended = set()
    first_id = None
    sus_due = None
    for t in range(K):
        asg = []
        for i, (at, q, ops) in enumerate(pipes):
            if at == t:
                asg.append(Assignment(ops=ops, cpu=1 if alloc != 10 else 2, ram=alloc, priority=Priority.BATCH_PIPELINE,
                                      pool_id=q, pipeline_id=f"p{i}"))
        sus = []
        if t == sus_t and first_id is not None:
            sus.append(Suspend(first_id, sus_pool))
        bad_pool = any(not (0 <= a.pool_id < P) for a in asg) or any(not (0 <= s_.pool_id < P) for s_ in sus)
        live_before = set()
        for pool in ex.pools:
            for c in list(pool.active_containers) + list(pool.suspending_containers):
                live_before.add(c.container_id)
        done_before = sum(len(pool.suspended_containers) for pool in ex.pools)
        try:
            res = ex.run_one_tick(sus, asg)
        except Exception as e:
            seen.add("raised")
            if bad_pool:
                seen.add("bad_pool_rejected")
            if want:
                return "REACHED" if want in seen else ""
            path_done()
            return ""
        if bad_pool:
            return "C09:command_for_nonexistent_pool_not_rejected"
        if sus:
            # accepted suspension of a 10 GB container: write-out of max(1, 10//20) = 1 tick, so it has ended
            # (one outcome: finished suspension) by the end of this very tick, whatever else the pool is doing
            sus_due = first_id
        accepted = accepted + len(asg)
        live_now = {}
        for pool in ex.pools:
            for c in list(pool.active_containers) + list(pool.suspending_containers):
                live_now[c.container_id] = c
        res_ids = [r.container_id for r in res]
        if len(set(res_ids)) != len(res_ids):
            return "C09:two_results_for_one_container"
        # new containers of this tick = those not live before (live now, or already reported)
        new_ids = [cid for cid in list(live_now) + res_ids if cid not in live_before and cid not in known]
        new_ids = list(dict.fromkeys(new_ids))
        if len(new_ids) != len(asg):
            return "C09:assignments_and_new_containers_differ"
        for cid in new_ids:
            known[cid] = True
        if t == 0 and asg:
            for cid, c in live_now.items():
                if c.assignment is asg[0]:
                    first_id = cid
        for r in res:
            if r.container_id in ended:
                return "C09:second_outcome_for_container"
            if r.container_id not in known:
                return "C09:result_for_unknown_container"
            if r.container_id in live_now:
                return "C09:result_for_container_still_live"
            ended.add(r.container_id)
            all_done = all(o.state() == S.COMPLETED for o in r.ops)
            if r.failed():
                fail = fail + 1
                seen.add("fail")
                if not r.error:
                    return "C09:failure_without_error_name"
                if all_done:
                    return "C09:failure_reported_but_all_completed"
                sts = [o.state() for o in r.ops]
                k = 0
                while k < len(sts) and sts[k] == S.COMPLETED:
                    k += 1
                if any(s_ != S.FAILED for s_ in sts[k:]):
                    return "C09:failure_not_completed_prefix_failed_suffix"
            else:
                succ = succ + 1
                seen.add("ok")
                if not all_done:
                    return "C09:success_with_unfinished_operator"
        done_now = sum(len(pool.suspended_containers) for pool in ex.pools)
        if done_now > done_before:
            seen.add("suspension_ended")
        for pool in ex.pools:
            for c in pool.suspended_containers:
                if c.container_id in ended and c.container_id in res_ids:
                    return "C09:suspended_container_also_reported"
                if c.container_id not in ended:
                    ended.add(c.container_id)
                    suspended = suspended + 1
        if sus_due is not None:
            for pool in ex.pools:
                for c in pool.suspending_containers:
                    if c.container_id == sus_due:
                        return "C09:suspended_container_never_reaches_its_outcome"
        # a container that ended in this tick (an operator of it FAILED: it was killed) is gone from the pool and its
        # result is among this tick's results - not held back to a later tick
        for cid, c in live_now.items():
            if any(o.state() == S.FAILED for o in c.operators):
                return "C09:killed_container_still_live_result_not_delivered_in_the_tick_it_ended"
            if c in [x for pool in ex.pools for x in pool.active_containers] and all(o.state() == S.COMPLETED for o in c.operators):
                return "C09:finished_container_still_live_result_not_delivered_in_the_tick_it_ended"
        if any(r.failed() for r in res) and oc and alloc != 10:
            seen.add("pool_kill")
        for cid in live_before:
            if cid not in live_now and cid not in ended:
                return "C09:container_vanished_without_outcome"
        # a running container ends: started at tick `at`, it needs d ticks for its first operator and one for the second
        # (or is killed earlier), so it is no longer active after tick at + d
        for pool in ex.pools:
            for c in pool.active_containers:
                for i, (at, q, d, m) in enumerate(specs):
                    if c.assignment.pipeline_id == f"p{i}" and t > at + d:
                        return "C09:container_never_reaches_its_outcome"
        if accepted != succ + fail + suspended + len(live_now):
            return "C09:ledger_equation_broken"
        total_completed = sum(pool.num_completed for pool in ex.pools)
        if total_completed != succ or ex.num_completed() != succ:
            return "C09:num_completed_differs_from_successes"
    if want:
        return "REACHED" if want in seen else ""
    path_done()
    return ""


def outcome_states(r0, d0, r1, d1, dy, alloc, my, K=8, oc=False, want=""):
    """One container holding two independent operators X (two segments) and Y (one segment): whatever the
    segments' sizes (a trailing segment may last a positive time that rounds to zero ticks), the container's
    single result is a success exactly when both operators completed, a failure names an error and leaves a
    completed prefix followed by failed operators, and the result arrives in the tick the container ends."""
    reset_globals()
    p = Pipeline("p", Priority.BATCH_PIPELINE)
    x = p.new_operator()
    x.add_segment(Segment(baseline_cpu_seconds=d0, cpu_scaling="const", memory_gb=1, storage_read_gb=r0))
    x.add_segment(Segment(baseline_cpu_seconds=d1, cpu_scaling="const", memory_gb=1, storage_read_gb=r1))
    y = p.new_operator()
    y.add_segment(Segment(baseline_cpu_seconds=dy, cpu_scaling="const", memory_gb=my, storage_read_gb=0))
    ex = Executor(num_pools=1, cpus_per_pool=2, ram_gb_per_pool=100, ticks_per_second=1, allow_memory_overcommit=oc)
    a = Assignment(ops=[x, y], cpu=1, ram=alloc, priority=Priority.BATCH_PIPELINE, pool_id=0, pipeline_id="p")
    got = None
    for t in range(K):
        try:
            res = ex.run_one_tick([], [a] if t == 0 else [])
        except Exception as e:
            return f"C09:container_raised_instead_of_reporting:{exc_name(e)}"
        live = len(ex.pools[0].active_containers)
        if res:
            if got is not None or len(res) != 1:
                return "C09:second_outcome_for_container"
            got = res[0]
            if live != 0:
                return "C09:result_for_container_still_live"
            sts = [x.state(), y.state()]
            if got.failed():
                if not got.error:
                    return "C09:failure_without_error_name"
                k = 0
                while k < 2 and sts[k] == S.COMPLETED:
                    k += 1
                if k == 2 or any(s_ != S.FAILED for s_ in sts[k:]):
                    return "C09:failure_not_completed_prefix_failed_suffix"
            else:
                if any(s_ != S.COMPLETED for s_ in sts):
                    return "C09:success_with_unfinished_operator"
        elif got is None and live != 1:
            return "C09:container_vanished_without_outcome"
    if got is None:
        return "" if (r0 // 20 + d0 + r1 // 20 + d1 + dy) > K - 1 else "C09:container_never_reported_an_outcome"
    if want == "fail":
        return "REACHED" if got.failed() else ""
    if want == "zero_tick_tail":
        return "REACHED" if (r1 > 0 and r1 < 20 and d1 == 0) else ""
    if want:
        return ""
    path_done()
    return ""
