"""C01 - operators never start before their parents completed; DAG iteration."""
from vf.hx import *  # noqa
from vf.harness import sim


def dag_iter(n, e0=False, e1=False, e2=False, e3=False, e4=False, e5=False, e6=False, e7=False,
             e8=False, e9=False, e10=False, e11=False, e12=False, e13=False, e14=False, want=""):
    """Every DAG on n nodes added in index order (edge bit per pair i<j)."""
    bits = [e0, e1, e2, e3, e4, e5, e6, e7, e8, e9, e10, e11, e12, e13, e14][:n_edge_bits(n)]
    p, ops = mk_pipeline("p", 3, n, bits, [[seg_ticks(1)] for _ in range(n)])
    for op in ops:
        # the library's edges are the declared ones, in both directions
        dp = decl_parents(op)
        if len(op.parents) != len(dp) or any(not any(a is b for b in op.parents) for a in dp):
            return "C01:stored_parents_differ_from_declared"
        for par in dp:
            if not any(c is op for c in par.children):
                return "C01:parent_does_not_list_child"
    order = list(p.values)
    if len(order) != n:
        return f"C01:iter_len_{len(order)}_of_{n}"
    pos = {}
    for k, op in enumerate(order):
        if id(op) in pos:
            return "C01:iter_repeats_operator"
        pos[id(op)] = k
    for op in ops:
        if id(op) not in pos:
            return "C01:iter_misses_operator"
        for par in decl_parents(op):
            if pos[id(par)] > pos[id(op)]:
                return "C01:iter_child_before_parent"
    # a second iteration gives the same sequence
    again = list(p.values)
    if len(again) != n or any(a is not b for a, b in zip(order, again)):
        return "C01:iter_not_repeatable"
    if len(p.values) != n:
        return "C01:len_mismatch"
    rs = p.runtime_status()
    listed = rs.get_ops(list(S))
    if len(listed) != n or any(a is not b for a, b in zip(listed, order)):
        return "C01:get_ops_not_iteration_order"
    for j, op in enumerate(listed):
        for par in decl_parents(op):
            if not any(par is q for q in listed[:j]):
                return "C01:get_ops_child_before_parent"
    ready = rs.get_ops(ASSIGNABLE_STATES, require_parents_complete=True)
    roots = [op for op in order if not decl_parents(op)]
    if len(ready) != len(roots) or any(a is not b for a, b in zip(ready, roots)):
        return "C01:ready_ops_not_roots"
    if want == "multiparent":
        return "REACHED" if any(len(decl_parents(op)) >= 2 for op in ops) else ""
    if want == "multiroot":
        return "REACHED" if len(roots) >= 2 else ""
    path_done()
    return ""


def container_order(n, e0, e1, e2, e3, e4, e5, o0, o1, o2, o3, pre_done, d0, d1, alloc, mem, K=8, want=""):
    """One container packed with an arbitrary sequence of operators of a DAG on n<=4 nodes:
    o0..o3 are operator indices (-1: slot unused).  Operators with index < pre_done that are not
    packed were completed earlier (by a previous container).  The executor must either run the
    pack in an order that respects dependencies or raise at the tick that would start a child
    early; in no case may an operator be RUNNING/COMPLETED with an unfinished parent."""
    reset_globals()
    bits = [e0, e1, e2, e3, e4, e5][:n_edge_bits(n)]
    durs = [d0, d1, d0, d1]
    p, ops = mk_pipeline("p", 3, n, bits, [[seg_ticks(durs[j], mem if j == 1 else 1)] for j in range(n)])
    pack_idx = []
    for o in (o0, o1, o2, o3):
        if o < 0:
            continue
        if o >= n or o in pack_idx:
            return ""        # not a pack (duplicates are C02's double-assignment case)
        pack_idx.append(o)
    if not pack_idx:
        return ""
    pool = ResourcePool(pool_id=0, cpu_pool=4, ram_pool=100, ticks_per_second=1)
    # history: operators below pre_done and outside the pack have completed in an earlier container,
    # in index (= a topological) order, one container each
    for j in range(n):
        if j < pre_done and j not in pack_idx:
            op = ops[j]
            if any(par.state() != S.COMPLETED for par in decl_parents(op)):
                return ""     # that history is impossible
            a0 = Assignment(ops=[op], cpu=1, ram=10, priority=Priority.BATCH_PIPELINE, pool_id=0, pipeline_id="p")
            for _ in range(4):
                pool.run_one_tick([], [a0] if _ == 0 else [])
                if op.state() == S.COMPLETED:
                    break
            if op.state() != S.COMPLETED:
                return "C01:history_setup_failed"
    pack = [ops[i] for i in pack_idx]
    a = Assignment(ops=pack, cpu=1, ram=alloc, priority=Priority.BATCH_PIPELINE, pool_id=0, pipeline_id="p")

    def bad():
        for op in ops:
            st = op.state()
            if st == S.RUNNING or st == S.COMPLETED:
                for par in decl_parents(op):
                    if par.state() != S.COMPLETED:
                        return True
        return False

    raised = False
    for tick in range(K):
        try:
            res = pool.run_one_tick([], [a] if tick == 0 else [])
        except AssertionError:
            raised = True
            if bad():
                return "C01:child_running_after_rejected_start"
            break
        if bad():
            return "C01:started_before_parent@container"
        if res:
            if res[0].failed():
                if want == "oom":
                    return "REACHED"
            break
    # an order-respecting pack with parents available must not be rejected
    ok_order = True
    done = set(j for j in range(n) if j < pre_done and j not in pack_idx)
    for i in pack_idx:
        for par in decl_parents(ops[i]):
            if ops.index(par) not in done:
                ok_order = False
        done.add(i)
    if raised and ok_order:
        return "C01:valid_pack_rejected"
    if (not raised) and (not ok_order):
        # the run ended (OOM kill) before the offending operator was reached, or it never started
        for i in pack_idx:
            st = ops[i].state()
            if st in (S.RUNNING, S.COMPLETED) and any(par.state() != S.COMPLETED for par in decl_parents(ops[i])):
                return "C01:invalid_pack_executed"
    if want == "rejected":
        return "REACHED" if raised else ""
    if want == "ran_all":
        return "REACHED" if all(ops[i].state() == S.COMPLETED for i in pack_idx) and len(pack_idx) >= 3 else ""
    if want:
        return ""
    path_done()
    return ""


def sim_deps(cfg, cpus=4, ram=40, da=1, db=1, dc=1, ma=None, mb=None, pa=3, pb=3, ta=0, tb=0, want=""):
    return sim.run(cfg, [sim.Deps()], cpus=cpus, ram=ram, da=da, db=db, dc=dc, ma=ma, mb=mb,
                   pa=pa, pb=pb, ta=ta, tb=tb, want=want)
