#!/usr/bin/env python3
"""tools/seed_table.py <summary.txt>: update seeded/*/meta.json 'detected_by' from a seed_matrix run and print the
markdown table for DESIGN.md section 10."""
import json, os, re, sys
VERIF = os.path.dirname(os.path.dirname(os.path.abspath(__file__)))
rows = {}
for ln in open(sys.argv[1]):
    m = re.match(r"(\S+): property=(\S+) exit=(\d+) violations=(\d+) wall=(\d+)s :: (.*)", ln.strip())
    if m:
        rows[m.group(1)] = m.groups()
print("| seed | property | what the change does (one line) | caught by (first obligation / reason) |")
print("|------|----------|----------------------------------|----------------------------------------|")
for name in sorted(os.listdir(os.path.join(VERIF, "seeded"))):
    mp = os.path.join(VERIF, "seeded", name, "meta.json")
    meta = json.load(open(mp))
    diff = open(os.path.join(VERIF, "seeded", name, "patch.diff")).read()
    files = sorted(set(re.findall(r"^\+\+\+ b/(\S+)", diff, re.M)))
    what = meta.get("summary") or ""
    if name in rows:
        _, prop, rc, nv, wall, first = rows[name]
        mm = re.search(r"obligation=(\S+) result='([^']*)", first)
        if rc == "1" and mm:
            det = f"`{mm.group(1)}` → `{mm.group(2)[:90]}`"
            meta["detected_by"] = {"check": f"./vcheck {prop} quick", "exit": 1, "first_obligation": mm.group(1), "reason": mm.group(2), "violating_obligations": int(nv)}
        else:
            det = "**missed**"
            meta["detected_by"] = {"check": f"./vcheck {prop} quick", "exit": int(rc), "note": "not detected"}
        json.dump(meta, open(mp, "w"), indent=1)
    else:
        det = "(not run)"
    print(f"| {name} | {meta['property']} | {', '.join(files)}: {what} | {det} |")
