#!/bin/bash
# tools/seed_matrix.sh [seed-name ...]   - runs, for every kept seeded change, the quick check of the property it
# breaks against a scratch worktree with the patch applied (EUDOXIA_REPO), and records whether it was caught.
cd /verif
OUT=/tmp/seedmatrix; mkdir -p $OUT
SEEDS="$@"; [ -z "$SEEDS" ] && SEEDS=$(ls seeded)
for s in $SEEDS; do
  prop=$(python3 -c "import json;print(json.load(open('seeded/$s/meta.json'))['property'])")
  wt=/tmp/wt_seed_$s
  git -C /repo worktree remove --force $wt >/dev/null 2>&1
  git -C /repo worktree add -q $wt HEAD || continue
  if ! git -C $wt apply /verif/seeded/$s/patch.diff; then echo "$s: PATCH DOES NOT APPLY" | tee -a $OUT/summary.txt; git -C /repo worktree remove --force $wt; continue; fi
  t0=$(date +%s)
  VERIF_EVIDENCE_DIR=$OUT/evidence EUDOXIA_REPO=$wt ${SEED_ENV:-} ./vcheck $prop quick > $OUT/$s.log 2>&1; rc=$?
  t1=$(date +%s)
  v=$(grep -c "^VIOLATION" $OUT/$s.log)
  first=$(grep -m1 "violation detail" $OUT/$s.log | cut -c1-200)
  echo "$s: property=$prop exit=$rc violations=$v wall=$((t1-t0))s :: $first" | tee -a $OUT/summary.txt
  git -C /repo worktree remove --force $wt
  rm -rf /verif/replays/$prop
done
