#!/bin/bash
# tools/try_seed.sh <seed-name> <property> [VERIF_ONLY regex]  - run one check against a scratch worktree with the seed applied
s=$1; prop=$2; only=$3
wt=/tmp/wt_try_$s
git -C /repo worktree remove --force $wt >/dev/null 2>&1
git -C /repo worktree add -q $wt HEAD && git -C $wt apply /verif/seeded/$s/patch.diff || exit 2
cd /verif
EUDOXIA_REPO=$wt VERIF_ONLY="$only" VERIF_JOBS=${VERIF_JOBS:-6} ./vcheck $prop quick 2>&1 | grep -E "violation detail|quick:|MACH|INCONCL" | cut -c1-230 | head -8
git -C /repo worktree remove --force $wt
rm -rf /verif/replays/$prop
