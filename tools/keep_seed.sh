#!/bin/bash
# tools/keep_seed.sh <worktree> <seed-name> <property>
# Confirms a seeded change (tests pass with it; demo passes without / fails with it) and stores it under /verif/seeded/<name>/.
set -u
WT=$1; NAME=$2; PROP=$3
OUT=/verif/seeded/$NAME
cd "$WT" || exit 2
git diff -- eudoxia > /tmp/$NAME.patch.diff
[ -s /tmp/$NAME.patch.diff ] || { echo "no diff"; exit 2; }
# (no git stash: the stash is shared by all worktrees of a repository)
git apply -R /tmp/$NAME.patch.diff || { echo "cannot revert"; exit 2; }
RA=$(PYTHONPATH=$WT EUDOXIA_REPO=$WT /venv/bin/python -B seed_demo.py >/dev/null 2>&1; echo $?)
git apply /tmp/$NAME.patch.diff || { echo "cannot re-apply"; exit 2; }
RB=$(PYTHONPATH=$WT EUDOXIA_REPO=$WT /venv/bin/python -B seed_demo.py >/tmp/$NAME.demo_with.txt 2>&1; echo $?)
T=$(PYTHONPATH=$WT /venv/bin/python -m pytest -q -p no:cacheprovider tests 2>&1 | tail -1)
echo "demo without change: exit $RA ; with change: exit $RB ; tests: $T"
if [ "$RA" = "0" ] && [ "$RB" != "0" ] && echo "$T" | grep -q "51 passed"; then
  mkdir -p $OUT
  cp /tmp/$NAME.patch.diff $OUT/patch.diff
  cp seed_demo.py $OUT/seed_demo.py
  [ -f seed_notes.md ] && cp seed_notes.md $OUT/notes.md
  tail -3 /tmp/$NAME.demo_with.txt > $OUT/demo_output_with_change.txt
  python3 - "$OUT" "$PROP" "$T" <<'PY'
import json,sys
out,prop,tests=sys.argv[1:4]
notes=open(out+'/notes.md').read() if __import__('os').path.exists(out+'/notes.md') else ''
json.dump({"property":prop,"breaks":prop,"source":"independent sub-agent given only the property text and a scratch worktree",
 "needs_to_manifest":notes[:1500],
 "confirmed":{"tests_with_change":tests.strip(),"demo_without_change":"exit 0 (DEMO PASS)","demo_with_change":"exit 1 (DEMO FAIL)",
              "how":"tools/keep_seed.sh: patch reverted / re-applied in the scratch worktree, PYTHONPATH=<worktree> pytest tests"},
 "detected_by":"(filled in after running the checks)"}, open(out+'/meta.json','w'), indent=1)
PY
  echo "KEPT $OUT"
else
  echo "REJECTED"
fi
rm -f /tmp/$NAME.patch.diff /tmp/$NAME.demo_with.txt
